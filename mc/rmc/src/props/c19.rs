//! C19 — position along a curve is a faithful arc-length parametrisation.
//! E1 over the C16 shape families (natural and length-adjusted curves) x a
//! progress menu containing every exact vertex fraction.

use rosu_map::{
    section::{
        general::GameMode,
        hit_objects::{BorrowedCurve, Curve, CurveBuffers, PathControlPoint},
    },
    util::Pos,
};
use serde_json::{json, Value};

use super::{
    c16::{families, len_menu},
    curves::{mode_from, points_from_json, points_json, MODES},
};
use crate::engine::{finish, guarded, par_range, run_witnesses, Acc, Run, Summary, Tier, Violation};

fn case_json(mode: GameMode, pts: &[PathControlPoint], len: Option<f64>) -> Value {
    json!({"mode": mode as i32, "points": points_json(pts), "len": len})
}

fn dist(a: Pos, b: Pos) -> f64 {
    let (dx, dy) = (f64::from(a.x) - f64::from(b.x), f64::from(a.y) - f64::from(b.y));
    (dx * dx + dy * dy).sqrt()
}

const FIXED: [f64; 16] = [
    -1.0,
    -0.0,
    0.0,
    5e-324,
    1e-9,
    0.0625,
    0.25,
    0.5,
    0.75,
    0.9375,
    0.999_999_999_999_999_9,
    1.0,
    1.000_000_001,
    7.0,
    f64::INFINITY,
    f64::NEG_INFINITY,
];

/// linear-scan reference for `idx_of_dist` on sorted lengths
fn ref_idx(lengths: &[f64], d: f64) -> (usize, usize) {
    // admissible range [lo, hi]: any index holding a value equal to d, or the
    // insertion point if none does
    let lt = lengths.iter().filter(|l| **l < d).count();
    let eq = lengths.iter().filter(|l| **l == d).count();
    if eq == 0 {
        (lt, lt)
    } else {
        (lt, lt + eq - 1)
    }
}

pub fn check_curve(
    mode: GameMode,
    pts: &[PathControlPoint],
    len: Option<f64>,
    c: &Curve,
    acc: &mut Acc,
) {
    acc.evals += 1;
    let path = c.path();
    let lengths = c.lengths();
    if path.is_empty() || path.iter().any(|p| !p.x.is_finite() || !p.y.is_finite()) || lengths.iter().any(|l| !l.is_finite()) {
        return; // C16's business
    }
    // f32 arithmetic in the subject: slack proportional to the magnitudes involved
    let path_mag = path.iter().map(|p| f64::from(p.x.abs().max(p.y.abs()))).fold(0.0, f64::max);
    let tol = 1e-3 * (1.0 + super::curves::max_abs(pts)) + 2e-6 * path_mag;
    let d = c.dist();
    let viol = |class: &str, msg: String, acc: &mut Acc| {
        acc.violation(Violation::new(
            class,
            format!("{mode:?} {} len={len:?}: {msg}", points_json(pts)),
            case_json(mode, pts, len),
        ));
    };
    let sorted = lengths.windows(2).all(|w| w[0] <= w[1]);
    // the position a given distance must map to, by linear scan over the
    // polyline (only meaningful for sorted lengths)
    let first = path[0];
    let last = *path.last().unwrap();
    let mut menu: Vec<f64> = FIXED.to_vec();
    if d > 0.0 {
        for l in lengths.iter().take(path.len()) {
            menu.push(l / d);
        }
    }
    let mut prev: Option<(f64, Pos)> = None;
    let mut sorted_menu = menu.clone();
    sorted_menu.sort_by(|a, b| a.total_cmp(b));
    for &p in &sorted_menu {
        acc.transitions += 1;
        let pos = c.position_at(p);
        let clamped = if p < 0.0 { 0.0 } else if p > 1.0 { 1.0 } else { p };
        // progress -> distance
        let pd = c.progress_to_dist(p);
        if pd != clamped * d {
            viol("progress-to-dist", format!("progress_to_dist({p}) = {pd}, expected {}", clamped * d), acc);
        }
        if !pos.x.is_finite() || !pos.y.is_finite() {
            viol("position-non-finite", format!("position_at({p}) = {pos:?}"), acc);
            continue;
        }
        if p <= 0.0 && dist(pos, first) > tol {
            viol("position-at-0", format!("position_at({p}) = {pos:?}, first path point {first:?}"), acc);
        }
        if p >= 1.0 && dist(pos, last) > tol {
            viol("position-at-1", format!("position_at({p}) = {pos:?}, last path point {last:?}"), acc);
        }
        // Lipschitz w.r.t. arc length between consecutive menu entries
        if let Some((pp, ppos)) = prev {
            let pc = if pp < 0.0 { 0.0 } else if pp > 1.0 { 1.0 } else { pp };
            let arc = (clamped - pc).abs() * d;
            let moved = dist(pos, ppos);
            if moved > arc + tol {
                viol("moves-faster-than-arc", format!("from progress {pp} to {p}: moved {moved}, arc length {arc}"), acc);
            }
        }
        prev = Some((p, pos));
        // borrowed view agrees
        let b = c.as_borrowed_curve();
        if b.position_at(p) != pos || b.progress_to_dist(p) != pd {
            viol("borrowed-differs", format!("borrowed curve differs at {p}"), acc);
        }
    }
    // vertex hits
    if d > 0.0 && sorted {
        for (i, l) in lengths.iter().enumerate().take(path.len()) {
            let pos = c.position_at(l / d);
            // several vertices may share one cumulative length (duplicates):
            // the position must be one of them
            let ok = lengths
                .iter()
                .enumerate()
                .take(path.len())
                .any(|(j, lj)| (lj - l).abs() <= 1e-9 * (1.0 + d) && dist(pos, path[j]) <= tol);
            if !ok {
                viol("vertex-miss", format!("position_at(lengths[{i}]/dist) = {pos:?}, vertex {:?}", path[i]), acc);
                break;
            }
        }
    }
    // idx_of_dist / interpolate_vertices against a linear scan
    if sorted {
        let mut probes: Vec<f64> = lengths.to_vec();
        probes.extend([-1.0, 0.0, d * 0.5, d * 0.123, d, d + 1.0]);
        for &q in &probes {
            let i = c.idx_of_dist(q);
            let (lo, hi) = ref_idx(lengths, q);
            if i < lo || i > hi {
                viol("idx-of-dist", format!("idx_of_dist({q}) = {i}, linear scan allows {lo}..={hi}; lengths {lengths:?}"), acc);
                break;
            }
            let got = c.interpolate_vertices(i, q);
            let want = if i == 0 {
                path[0]
            } else if i >= path.len() {
                last
            } else {
                let (p0, p1) = (path[i - 1], path[i]);
                let (d0, d1) = (lengths[i - 1], lengths[i]);
                if (d0 - d1).abs() <= f64::EPSILON {
                    p0
                } else {
                    let w = (q - d0) / (d1 - d0);
                    Pos::new(
                        (f64::from(p0.x) + f64::from(p1.x - p0.x) * w) as f32,
                        (f64::from(p0.y) + f64::from(p1.y - p0.y) * w) as f32,
                    )
                }
            };
            if dist(got, want) > tol {
                viol("interpolate", format!("interpolate_vertices({i}, {q}) = {got:?}, reference {want:?}"), acc);
                break;
            }
        }
    }
    acc.nontrivial(&(path.len(), d.to_bits(), last.x.to_bits(), last.y.to_bits()));
}

fn check_shape(mode: GameMode, pts: &[PathControlPoint], bufs: &mut CurveBuffers, acc: &mut Acc) {
    let _g = crate::engine::watch::guard("points", |s| s.push_str(&format!("{mode:?} {}", points_json(pts))));
    let nat = Curve::new(mode, pts, None, bufs);
    check_curve(mode, pts, None, &nat, acc);
    let nd = nat.dist();
    if !nd.is_finite() {
        return;
    }
    // non-positive requested lengths still produce a curve (a single point)
    for l in len_menu(nd).into_iter().chain([0.0, -5.0]) {
        // through the borrowed API as well: same buffers
        let c = BorrowedCurve::new(mode, pts, Some(l), bufs).to_owned_curve();
        check_curve(mode, pts, Some(l), &c, acc);
    }
}

pub fn replay(case: &Value) -> Vec<Violation> {
    let mode = mode_from(case["mode"].as_i64().unwrap_or(0));
    let pts = points_from_json(&case["points"]);
    let mut acc = Acc::new();
    check_shape(mode, &pts, &mut CurveBuffers::default(), &mut acc);
    acc.viols.into_values().flatten().collect()
}

pub fn run(tier: Tier) -> i32 {
    let run = Run::new("C19", tier, "model_checking");
    let mut acc = Acc::new();
    run_witnesses("C19", &mut acc, &replay);
    // C16's families, with smaller grids in the quick tier (the progress menu
    // multiplies the work)
    let mut fams = families(tier);
    if !tier.thorough() {
        for f in fams.iter_mut() {
            if f.n == 3 && f.g > 3 {
                f.g = 3;
            }
        }
    }
    let modes: Vec<GameMode> = if tier.thorough() { MODES.to_vec() } else { vec![GameMode::Osu, GameMode::Mania] };
    let mut bounds = Vec::new();
    for fam in &fams {
        let total = fam.total() * modes.len() as u64;
        let a = par_range(total, |idx, acc| {
            let mode = modes[(idx % modes.len() as u64) as usize];
            let pts = fam.get(idx / modes.len() as u64);
            acc.states += 1;
            let mut bufs = CurveBuffers::default();
            if let Err(p) = guarded(|| check_shape(mode, &pts, &mut bufs, acc)) {
                acc.violation(Violation::new("panic", format!("{mode:?} {}: {p}", points_json(&pts)), case_json(mode, &pts, None)));
            }
            if idx % 300_007 == 0 {
                acc.sample(|| case_json(mode, &pts, None));
            }
        });
        bounds.push(json!({"points": fam.n, "grid": fam.g, "scale": fam.scale, "layouts": fam.layouts.len(),
            "shapes": fam.total(), "modes": modes.len()}));
        acc = acc.merge(a);
    }
    let summary = Summary {
        rule: "every curve of the C16 families (natural and each requested length) x progress menu {-inf,-1,-0,0,5e-324,1e-9,\
               k/16,1-2^-53,1,1+1e-9,7,+inf} plus every exact vertex fraction lengths[i]/dist: position_at(<=0) is the first \
               point, position_at(>=1) the last, progress_to_dist == clamp(p)*dist exactly, movement between consecutive \
               progress values <= arc length + tol, vertex fractions hit their vertex, idx_of_dist/interpolate_vertices vs \
               linear scan, borrowed view identical. evaluations = curves, transitions = position queries; \
               distinct_nontrivial = distinct (path length, dist, end point)"
            .into(),
        bounds: json!({"families": bounds, "fixed_progress_values": FIXED.len()}),
        exhaustive: true,
        caps_hit: vec![],
        assumptions: vec![
            "position equalities to 1e-3 x coordinate magnitude (DESIGN section 7)".into(),
            "NaN progress excluded".into(),
        ],
    };
    finish(&run, acc, summary)
}
