fn main(){}
