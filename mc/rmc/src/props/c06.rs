//! C06 — a rejected line has no effect on the result.
//!
//! E1 (2-safety over every continuation up to the bound): for every sequence
//! of <= k records over valid records and corruptions of them, per section and
//! with a fixed context that makes residue observable, `decode(file)` must
//! equal `decode(file without the lines the section parser rejected)` on the
//! COMPLETE result.  E2: product of the real `HitObjectsState` fed every line
//! and a shadow state fed only the accepted ones (verif hook for cloning).

use rosu_map::{
    section::hit_objects::{HitObjects, HitObjectsState},
    Beatmap, DecodeBeatmap, DecodeState,
};
use serde_json::{json, Value};

use crate::engine::{
    digits,
    e2::{self, Product, StepOut},
    finish, guarded, par_range, product, run_witnesses, Acc, Run, Summary, Tier, Violation,
};

struct SectionPlan {
    name: &'static str,
    /// lines before the varied section (other sections, incl. headers)
    prefix: &'static str,
    /// lines after the varied records (may continue the same section)
    suffix: &'static str,
    records: Vec<&'static str>,
}

fn plans(tier: Tier) -> Vec<SectionPlan> {
    let t = tier.thorough();
    let mut hit: Vec<&'static str> = vec![
        // valid
        "10,20,100,1,0",
        "30,40,200,5,2,1:2:0:0:",
        "100,100,300,2,0,B|200:100|200:200,1,150",
        "100,100,400,2,0,B|150:150|150:150|200:100|L|250:100,1,220",
        "100,100,500,2,0,B|150:150|L|200:100,1,90",
        "256,192,600,12,0,900",
        "64,192,700,128,0,900:0:0:0:0:",
        "50,50,800,2,0,C|60:70|80:30,2,90,2|0|4,0:0|1:2|0:0",
        // sliders whose path is only the type letter / empty: any shortcut for them must still start from clean buffers
        "256,192,450,2,0,L,1,100",
        "256,192,470,2,0,,2,40",
        // sliders without a length of their own (field absent / zero): nothing of an earlier line may fill it in
        "100,100,480,2,0,B|200:100|200:200,1",
        "100,100,490,2,0,L|200:100,1,0",
        // corruptions: rejected after partial progress
        "100,100,310,2,0,B|10:10|20:20|L|30:30|xx:1,1,100",
        "100,100,320,2,0,B|10:10|10:10|20:20|P|30:30|40:x,1,100",
        "100,100,330,2,0,L|10:10|B|20:20|30:30|,1,100",
        "100,100,340,2,0,B|10:10|x,1,100",
        "100,100,350,2,0,B|10:10|20:20,9001,100",
        "100,100,360,2,0,B|10:10|20:20,1,1e999",
        "100,100,370,2,0,B|10:10|20:20,1,100,2|0,x:1",
        "100,100,380,2,0,B|10:10|20:20",
        "100,100,390,2,0,|,1,100",
        "256,192,610,12,0",
        "256,192,620,8,0,x",
        "64,192,710,128,0,x:0:0",
        "10,20,110,1,0,x:0",
        "10,20,120,1,x",
        "10,20,130,64,0",
        "10,20,x,1,0",
        "10,20,140",
        "131073,20,150,1,0",
    ];
    if t {
        hit.extend([
            "100,100,395,6,0,P|150:50|200:100,2,200",
            "100,100,396,2,0,B|10:10|20:20|B|30:30|40:40|L|50:x,1,100",
            "100,100,397,2,0,C|10:10|10:10|20:20|30:x,1,100",
            "10,20,135,9,0",
            "256,192,630,12,0,NaN",
            "100,100,398,2,0,B|10:10|20:20,1,100,2|0,1:1|2,0:0:0:0:",
        ]);
    }
    let timing: Vec<&'static str> = vec![
        "0,500,4,1,0,100,1,0",
        "0,-50,4,2,0,60,0,1",
        "100,-200,4,3,1,30,0,0",
        "100,300,3,1,0,100,1,8",
        "200,-100,4,1,0,100,0,0",
        // rejected
        "100,NaN,4,1,0,100,1,0",
        "150,500,0,1,0,100,1,0",
        "100,500,4,x,0,100,1,0",
        "100,-50,4,1,0,100,0,x",
        "50,1e999,4,1,0,100,1,0",
        "0,500,4,1,0,2147483648,1,0",
        "100",
        "x,500",
    ];
    let events: Vec<&'static str> = vec![
        "0,0,\"bg.jpg\",0,0",
        "2,100,900",
        "Video,0,\"img.png\"",
        "Sprite,Background,Centre,\"sp.png\",320,240",
        "Sprite,Background,Centre",
        "Sprite,Background,Centre,\"early.png\"",
        "4,0,0,\"fg.png\",320",
        "2,x,5",
        "2,5,x",
        "9,0,x",
        "2,100",
        "Break",
    ];
    let colours: Vec<&'static str> = vec![
        "Combo1 : 1,2,3",
        "Combo2 : 4,5,6,7",
        "SliderBorder : 9,9,9",
        "SliderBorder : 1,1,1",
        "Combo3 : 256,0,0",
        "New : 1,2",
        "New : 1,2,x",
        "Another : 1,2,3,4,5",
        "Combo4",
    ];
    let general: Vec<&'static str> = vec![
        "Mode: 1",
        "SampleSet: Soft",
        "SampleVolume: 40",
        "EpilepsyWarning: 1",
        "Mode: 9",
        "SampleSet: Loud",
        "SampleVolume: x",
        "EpilepsyWarning: 2147483648",
        "Countdown: 9",
        "AudioLeadIn: 1.5",
    ];
    let difficulty: Vec<&'static str> = vec![
        "OverallDifficulty: 8",
        "ApproachRate: 9",
        "SliderMultiplier: 2",
        "OverallDifficulty: x",
        "ApproachRate: NaN",
        "ApproachRate:",
        "SliderMultiplier: 1e999",
        "CircleSize: inf",
    ];
    let editor: Vec<&'static str> = vec!["Bookmarks: 1,2", "Bookmarks: 3,x,5", "Bookmarks: x", "Bookmarks: 7,", "BeatDivisor: 8", "BeatDivisor: x", "GridSize: 2147483648", "DistanceSpacing: NaN", "TimelineZoom: 3"];
    let metadata: Vec<&'static str> = vec!["Title: a", "BeatmapID: 5", "BeatmapID: -5", "BeatmapSetID: -2147483647", "BeatmapID: x", "BeatmapSetID: 2147483648", "BeatmapSetID: 7", "Artist: b"];
    vec![
        SectionPlan {
            name: "HitObjects",
            prefix: "[General]\nMode: 0\n[TimingPoints]\n0,500,4,1,0,100,1,0\n[HitObjects]\n",
            suffix: "",
            records: hit,
        },
        SectionPlan {
            name: "TimingPoints",
            prefix: "[TimingPoints]\n",
            suffix: "[HitObjects]\n100,100,100,2,0,B|200:100|200:200,2,150\n10,20,150,1,0\n",
            records: timing,
        },
        SectionPlan {
            name: "Events",
            prefix: "[Events]\n",
            suffix: "[HitObjects]\n10,20,950,1,0\n",
            records: events,
        },
        SectionPlan { name: "Colours", prefix: "[Colours]\n", suffix: "", records: colours },
        SectionPlan {
            name: "General",
            prefix: "[General]\n",
            suffix: "[TimingPoints]\n0,-50,4\n[HitObjects]\n100,100,100,2,0,C|200:100|200:200,1,150\n",
            records: general,
        },
        SectionPlan {
            name: "Difficulty",
            prefix: "[Difficulty]\n",
            suffix: "[HitObjects]\n100,100,100,2,0,L|200:100,1,150\n",
            records: difficulty,
        },
        SectionPlan { name: "Editor", prefix: "[Editor]\n", suffix: "", records: editor },
        SectionPlan { name: "Metadata", prefix: "[Metadata]\n", suffix: "", records: metadata },
    ]
}

fn feed(state: &mut <Beatmap as DecodeBeatmap>::State, section: &str, line: &str) -> bool {
    match section {
        "General" => Beatmap::parse_general(state, line).is_ok(),
        "Editor" => Beatmap::parse_editor(state, line).is_ok(),
        "Metadata" => Beatmap::parse_metadata(state, line).is_ok(),
        "Difficulty" => Beatmap::parse_difficulty(state, line).is_ok(),
        "Events" => Beatmap::parse_events(state, line).is_ok(),
        "TimingPoints" => Beatmap::parse_timing_points(state, line).is_ok(),
        "Colours" => Beatmap::parse_colors(state, line).is_ok(),
        _ => Beatmap::parse_hit_objects(state, line).is_ok(),
    }
}

fn full(text: &str) -> Result<String, String> {
    match guarded(|| rosu_map::from_str::<Beatmap>(text)) {
        Ok(Ok(m)) => Ok(format!("{m:?}")),
        Ok(Err(e)) => Err(format!("Err({:?})", e.kind())),
        Err(p) => Err(format!("panic: {p}")),
    }
}

/// Returns (accepted mask) by replaying the records through the public parser
/// in context (the prefix lines are replayed too so that e.g. the mode is set).
fn accepted_mask(section: &str, prefix: &str, lines: &[&str]) -> Vec<bool> {
    let mut st = <Beatmap as DecodeBeatmap>::State::create(14);
    let mut cur = "";
    for l in prefix.lines() {
        if let Some(name) = l.strip_prefix('[').and_then(|x| x.strip_suffix(']')) {
            cur = name;
            continue;
        }
        if !cur.is_empty() {
            let _ = feed(&mut st, cur, l);
        }
    }
    lines.iter().map(|l| feed(&mut st, section, l)).collect()
}

fn check(plan: &SectionPlan, lines: &[&str], acc: &mut Acc) {
    let _g = crate::engine::watch::guard("records", |s| s.push_str(&format!("[{}] {lines:?}", plan.name)));
    acc.evals += 1;
    acc.transitions += lines.len() as u64;
    let mask = match guarded(|| accepted_mask(plan.name, plan.prefix, lines)) {
        Ok(m) => m,
        Err(p) => {
            acc.violation(Violation::new("panic", format!("[{}] {lines:?}: {p}", plan.name), json!({"kind": "records", "section": plan.name, "lines": lines})));
            return;
        }
    };
    if mask.iter().all(|a| *a) {
        return; // nothing rejected: trivial
    }
    let build = |keep_all: bool| {
        let mut s = String::from("osu file format v14\n");
        s.push_str(plan.prefix);
        for (l, ok) in lines.iter().zip(&mask) {
            if keep_all || *ok {
                s.push_str(l);
                s.push('\n');
            }
        }
        s.push_str(plan.suffix);
        s
    };
    acc.evals += 2;
    let with = full(&build(true));
    let without = full(&build(false));
    if with != without {
        let rejected: Vec<&str> = lines.iter().zip(&mask).filter(|(_, ok)| !**ok).map(|(l, _)| *l).collect();
        acc.violation(Violation::new(
            format!("rejected-line-has-effect-{}", plan.name.to_lowercase()),
            format!("[{}] {lines:?}: removing the rejected lines {rejected:?} changes the decoded map", plan.name),
            json!({"kind": "records", "section": plan.name, "lines": lines}),
        ));
    }
    acc.nontrivial(&(plan.name, lines));
}

// ---------------------------------------------------------------------------
// E2: real HitObjectsState vs shadow fed only accepted lines

#[derive(Clone)]
struct Sendable(HitObjectsState);
// the only non-Send field is a scratch Vec<*const str> that is empty between calls
unsafe impl Send for Sendable {}
unsafe impl Sync for Sendable {}

#[derive(Clone)]
pub struct S {
    real: Sendable,
    shadow: Sendable,
}

#[derive(Clone)]
struct Model {
    lines: std::sync::Arc<Vec<&'static str>>,
}

fn observe(st: &HitObjectsState) -> String {
    let h: HitObjects = st.clone().into();
    format!("{:?}", h.hit_objects)
}

impl Product for Model {
    type S = S;
    type A = u16;
    fn name(&self) -> &'static str {
        "c06-hitobjects-state"
    }
    fn init(&self) -> Vec<S> {
        let mk = || {
            let mut st = HitObjectsState::create(14);
            let _ = HitObjects::parse_timing_points(&mut st, "0,500,4,1,0,100,1,0");
            Sendable(st)
        };
        vec![S { real: mk(), shadow: mk() }]
    }
    fn actions(&self, _: &S, out: &mut Vec<u16>) {
        out.extend(0..self.lines.len() as u16);
    }
    fn step(&self, s: &S, a: &u16) -> StepOut<S> {
        let line = self.lines[*a as usize];
        let r = guarded(|| {
            let mut real = s.real.0.clone();
            let ok = HitObjects::parse_hit_objects(&mut real, line).is_ok();
            let mut shadow = s.shadow.0.clone();
            if ok {
                let _ = HitObjects::parse_hit_objects(&mut shadow, line);
            }
            let (a, b) = (observe(&real), observe(&shadow));
            (real, shadow, ok, a == b)
        });
        match r {
            Ok((real, shadow, ok, same)) => StepOut {
                next: S { real: Sendable(real), shadow: Sendable(shadow) },
                bad: (!same).then(|| {
                    (
                        "rejected-line-has-effect-hitobjects".to_string(),
                        format!("after line {line:?} (accepted={ok}) the state fed every line and the state fed only accepted lines decode differently"),
                    )
                }),
            },
            Err(p) => StepOut { next: s.clone(), bad: Some(("panic".into(), p)) },
        }
    }
    fn key(&self, s: &S) -> String {
        format!("{:?}|{:?}", s.real.0, s.shadow.0)
    }
    fn action_json(&self, a: &u16) -> Value {
        json!(self.lines[*a as usize])
    }
}

fn e2_lines() -> Vec<&'static str> {
    vec![
        "10,20,100,1,0",
        "100,100,300,2,0,B|200:100|200:200,1,150",
        "100,100,400,2,0,B|150:150|150:150|200:100|L|250:100,1,220",
        "256,192,600,12,0,900",
        "100,100,480,2,0,B|200:100|200:200,1",
        "100,100,310,2,0,B|10:10|20:20|L|30:30|xx:1,1,100",
        "100,100,320,2,0,B|10:10|10:10|20:20|P|30:30|40:x,1,100",
        "100,100,340,2,0,B|10:10|x,1,100",
        "100,100,350,2,0,B|10:10|20:20,9001,100",
        "100,100,380,2,0,B|10:10|20:20",
        "256,192,610,12,0",
        "10,20,130,64,0",
        "10,20,x,1,0",
    ]
}

pub fn replay(case: &Value) -> Vec<Violation> {
    let mut acc = Acc::new();
    if case["kind"] == "history" {
        let lines = e2_lines();
        let model = Model { lines: std::sync::Arc::new(lines) };
        let mut s = model.init().remove(0);
        for a in case["actions"].as_array().unwrap() {
            let line = a.as_str().unwrap_or("");
            let idx = model.lines.iter().position(|l| *l == line).unwrap_or(0) as u16;
            let out = model.step(&s, &idx);
            if let Some((class, msg)) = out.bad {
                acc.violation(Violation::new(class, msg, case.clone()));
                break;
            }
            s = out.next;
        }
    } else {
        let section = case["section"].as_str().unwrap_or("HitObjects");
        let lines: Vec<String> = case["lines"].as_array().map(|a| a.iter().map(|v| v.as_str().unwrap_or("").to_string()).collect()).unwrap_or_default();
        let refs: Vec<&str> = lines.iter().map(String::as_str).collect();
        if let Some(plan) = plans(Tier::Thorough).into_iter().find(|p| p.name == section) {
            check(&plan, &refs, &mut acc);
        }
    }
    acc.viols.into_values().flatten().collect()
}

pub fn run(tier: Tier) -> i32 {
    let run = Run::new("C06", tier, "model_checking");
    let mut acc = Acc::new();
    run_witnesses("C06", &mut acc, &replay);
    let mut bounds = Vec::new();
    for plan in plans(tier) {
        let k = match (plan.name, tier) {
            ("HitObjects", Tier::Quick) => 4,
            ("HitObjects", Tier::Thorough) => 5,
            ("TimingPoints", Tier::Quick) => 5,
            ("TimingPoints", Tier::Thorough) => 6,
            (_, Tier::Quick) => 5,
            (_, Tier::Thorough) => 6,
        };
        let mut per = Vec::new();
        for len in 1..=k {
            let radices = vec![plan.records.len() as u64; len];
            let total = product(&radices);
            let a = par_range(total, |idx, acc| {
                let mut d = Vec::new();
                digits(idx, &radices, &mut d);
                let lines: Vec<&str> = d.iter().map(|&i| plan.records[i]).collect();
                acc.states += 1;
                check(&plan, &lines, acc);
                if idx % 150_001 == 17 {
                    acc.sample(|| json!({"section": plan.name, "lines": lines}));
                }
            });
            per.push(json!({"records": len, "sequences": total}));
            acc = acc.merge(a);
        }
        bounds.push(json!({"section": plan.name, "alphabet": plan.records.len(), "max_records": k, "per_len": per}));
    }
    // E2
    let mut e2acc = Acc::new();
    let model = Model { lines: std::sync::Arc::new(e2_lines()) };
    let res = e2::run_opts("C06", model, tier.pick(&[6], &[9]), tier.pick(30_000_000, 900_000_000), tier.thorough(), &mut e2acc);
    e2acc.evals += e2acc.transitions;
    e2acc.distinct_measured = Some(e2acc.states);
    let acc = acc.merge(e2acc);
    let summary = Summary {
        rule: "per section every sequence of <= k records over valid records and corruptions (field deleted/garbled/overflowed, \
               corruption deep inside a multi-segment slider path, ...), embedded in a context that makes residue observable (a \
               following slider/circle, other sections): the lines the public section parser rejects (replayed in context) are \
               removed and the COMPLETE decoded Beatmap (Debug form incl. control points, expected length, computed curve) must be \
               identical. Non-trivial = sequences with at least one rejected line. E2: BFS over (real HitObjectsState fed every \
               line, shadow state fed only accepted lines), invariant: both convert to the same objects after every line."
            .into(),
        bounds: json!({"sections": bounds, "e2_alphabet": e2_lines().len(), "e2_completed_depth": res.completed_depth,
            "e2_capped_at_depth": res.capped_at_depth, "e2_per_depth": res.per_depth}),
        exhaustive: res.capped_at_depth.is_none(),
        caps_hit: res.capped_at_depth.map(|d| vec![format!("E2 state cap at depth {d}")]).unwrap_or_default(),
        assumptions: vec![
            "rejection is decided by the public per-section parse function of Beatmap replayed in context".into(),
            "Debug snapshot of HitObjectsState (verif hook) is a complete state key".into(),
        ],
    };
    finish(&run, acc, summary)
}
