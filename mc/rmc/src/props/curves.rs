//! Shared shape alphabets and exact-curve references for C16, C17, C18, C19.

use rosu_map::{
    section::{
        general::GameMode,
        hit_objects::{PathControlPoint, PathType, SplineType},
    },
    util::Pos,
};
use serde_json::{json, Value};

pub const KINDS: [PathType; 4] = [
    PathType::LINEAR,
    PathType::BEZIER,
    PathType::PERFECT_CURVE,
    PathType::CATMULL,
];

pub fn kind_letter(t: PathType) -> &'static str {
    match t.kind {
        SplineType::Linear => "L",
        SplineType::BSpline => "B",
        SplineType::PerfectCurve => "P",
        SplineType::Catmull => "C",
    }
}

pub fn kind_from(s: &str) -> Option<PathType> {
    match s {
        "L" => Some(PathType::LINEAR),
        "B" => Some(PathType::BEZIER),
        "P" => Some(PathType::PERFECT_CURVE),
        "C" => Some(PathType::CATMULL),
        _ => None,
    }
}

pub type Layout = Vec<Option<PathType>>;

/// Type layouts for `n` control points: first point typed with each kind; at
/// most one typed interior point (every kind); last point untyped or typed.
pub fn layouts(n: usize) -> Vec<Layout> {
    let mut out = Vec::new();
    for t0 in KINDS {
        let mut interiors: Vec<Layout> = vec![vec![None; n.saturating_sub(2)]];
        for i in 0..n.saturating_sub(2) {
            for t in KINDS {
                let mut v = vec![None; n - 2];
                v[i] = Some(t);
                interiors.push(v);
            }
        }
        let lasts: Vec<Option<PathType>> = if n >= 2 {
            vec![None, Some(PathType::LINEAR), Some(PathType::BEZIER)]
        } else {
            vec![]
        };
        for int in &interiors {
            if n == 1 {
                out.push(vec![Some(t0)]);
                continue;
            }
            for &last in &lasts {
                if n >= 3 && last == Some(PathType::BEZIER) {
                    continue; // keep the product small: typed last point as L only for n>=3
                }
                let mut l = vec![Some(t0)];
                l.extend(int.iter().copied());
                l.push(last);
                out.push(l);
            }
        }
    }
    out.sort_by_key(|l| format!("{:?}", l.iter().map(|t| t.map(kind_letter)).collect::<Vec<_>>()));
    out.dedup();
    out
}

/// A finite family of control-point lists: first point at `origin`, the other
/// `n-1` points on the integer grid `[-g, g]^2` scaled by `scale`, every
/// layout in `layouts`.
#[derive(Clone, Debug)]
pub struct Family {
    pub n: usize,
    pub g: i32,
    pub scale: f32,
    pub origin: (f32, f32),
    pub layouts: Vec<Layout>,
}

impl Family {
    pub fn side(&self) -> u64 {
        (2 * self.g + 1) as u64
    }
    pub fn coords(&self) -> u64 {
        let cells = self.side() * self.side();
        cells.pow((self.n - 1) as u32)
    }
    pub fn total(&self) -> u64 {
        self.coords() * self.layouts.len() as u64
    }
    pub fn get(&self, idx: u64) -> Vec<PathControlPoint> {
        let li = (idx % self.layouts.len() as u64) as usize;
        let mut c = idx / self.layouts.len() as u64;
        let side = self.side();
        let cells = side * side;
        let layout = &self.layouts[li];
        let mut pts = Vec::with_capacity(self.n);
        pts.push(PathControlPoint {
            pos: Pos::new(self.origin.0, self.origin.1),
            path_type: layout[0],
        });
        for i in 1..self.n {
            let cell = c % cells;
            c /= cells;
            let x = (cell % side) as i32 - self.g;
            let y = (cell / side) as i32 - self.g;
            pts.push(PathControlPoint {
                pos: Pos::new(
                    self.origin.0 + x as f32 * self.scale,
                    self.origin.1 + y as f32 * self.scale,
                ),
                path_type: layout[i],
            });
        }
        pts
    }
}

/// Three-point perfect curves that are almost (or exactly) straight: middle point near the chord's centre, integer
/// coordinates, sagitta from 0 to about 1 px - the arcs that need the fewest sub-points.
pub fn near_collinear_arcs() -> Vec<Vec<PathControlPoint>> {
    let mut v = Vec::new();
    for m in (10i32..=60).step_by(2) {
        for cx in [2 * m, 2 * m + 1] {
            for slope in [0i32, 1, 3, 7, 20] {
                let by = slope * m / 50;
                for d in [-1i32, 0, 1] {
                    for off in [(0.0f32, 0.0f32), (100.0, 100.0)] {
                        let p = |x: i32, y: i32, t| PathControlPoint { pos: Pos::new(x as f32 + off.0, y as f32 + off.1), path_type: t };
                        v.push(vec![p(0, 0, Some(PathType::PERFECT_CURVE)), p(m, by, None), p(cx, 2 * by + d, None)]);
                    }
                }
            }
        }
    }
    v
}

/// Three-point perfect curves far from the origin whose points are almost collinear: a = `origin`, b and c one and
/// two long steps along a direction, each displaced by a few units.  Here the products of the circumcircle formula
/// exceed the 24-bit mantissa, so its denominator and the collinearity test round differently.
pub fn far_almost_collinear_arcs() -> Vec<Vec<PathControlPoint>> {
    let mut v = Vec::new();
    for origin in [(1i32, 1i32), (333, -77), (-5000, 7000)] {
        for dir in [(1i32, 0i32), (1, 1), (3, -1), (5, 7), (-2, 5)] {
            for step in [1000i32, 4099, 12345] {
                for e in 0..625i32 {
                    let (e1, e2) = (e % 25, e / 25);
                    let b = (origin.0 + step * dir.0 + e1 % 5 - 2, origin.1 + step * dir.1 + e1 / 5 - 2);
                    let c = (origin.0 + 2 * step * dir.0 + e2 % 5 - 2, origin.1 + 2 * step * dir.1 + e2 / 5 - 2);
                    if b.0.abs().max(b.1.abs()).max(c.0.abs()).max(c.1.abs()) > 131_072 {
                        continue;
                    }
                    let p = |q: (i32, i32), t| PathControlPoint { pos: Pos::new(q.0 as f32, q.1 as f32), path_type: t };
                    v.push(vec![p(origin, Some(PathType::PERFECT_CURVE)), p(b, None), p(c, None)]);
                }
            }
        }
    }
    v
}

/// Paths whose last two control points are neighbouring floats (one unit in the last place apart in x, y or both):
/// different points, however close.
pub fn adjacent_float_ends() -> Vec<Vec<PathControlPoint>> {
    let mut v = Vec::new();
    let up = |x: f32| f32::from_bits(x.to_bits() + 1);
    for (bx, by) in [(100.0f32, 50.0f32), (0.3, 0.7), (360.5, -12.25), (1.0, 0.0)] {
        for (cx, cy) in [(up(bx), by), (bx, up(by)), (up(bx), up(by))] {
            for ty in [PathType::LINEAR, PathType::BEZIER, PathType::CATMULL] {
                let p = |x: f32, y: f32, t| PathControlPoint { pos: Pos::new(x, y), path_type: t };
                v.push(vec![p(0.0, 0.0, Some(ty)), p(bx, by, None), p(cx, cy, None)]);
                v.push(vec![p(0.0, 0.0, Some(ty)), p(bx / 2.0, by, None), p(bx, by, Some(PathType::LINEAR)), p(cx, cy, None)]);
            }
        }
    }
    v
}

/// Coordinate-wise equality of positions, independent of the library's `PartialEq for Pos`.
pub fn same_pos(a: Pos, b: Pos) -> bool {
    a.x == b.x && a.y == b.y
}

/// Coordinate-wise equality of two point lists.
pub fn same_points(a: &[Pos], b: &[Pos]) -> bool {
    a.len() == b.len() && a.iter().zip(b).all(|(p, q)| same_pos(*p, *q))
}

pub fn points_json(pts: &[PathControlPoint]) -> Value {
    Value::Array(
        pts.iter()
            .map(|p| json!([p.pos.x, p.pos.y, p.path_type.map(kind_letter)]))
            .collect(),
    )
}

pub fn points_from_json(v: &Value) -> Vec<PathControlPoint> {
    v.as_array()
        .unwrap()
        .iter()
        .map(|p| PathControlPoint {
            pos: Pos::new(p[0].as_f64().unwrap() as f32, p[1].as_f64().unwrap() as f32),
            path_type: p[2].as_str().and_then(kind_from),
        })
        .collect()
}

pub fn mode_from(i: i64) -> GameMode {
    GameMode::from(i as u8)
}

pub const MODES: [GameMode; 4] = [GameMode::Osu, GameMode::Taiko, GameMode::Catch, GameMode::Mania];

// ---------------------------------------------------------------------------
// exact curves in f64

pub type P2 = (f64, f64);

pub fn p2(p: Pos) -> P2 {
    (f64::from(p.x), f64::from(p.y))
}

pub fn dist2(a: P2, b: P2) -> f64 {
    ((a.0 - b.0).powi(2) + (a.1 - b.1).powi(2)).sqrt()
}

pub fn bezier_at(ctrl: &[P2], t: f64) -> P2 {
    let mut w: Vec<P2> = ctrl.to_vec();
    let n = w.len();
    for k in 1..n {
        for i in 0..n - k {
            w[i] = (
                w[i].0 * (1.0 - t) + w[i + 1].0 * t,
                w[i].1 * (1.0 - t) + w[i + 1].1 * t,
            );
        }
    }
    w[0]
}

/// Uniform Catmull-Rom through `pts` as a dense polyline (`per_span` samples
/// per span); end tangents by reflection, first span starts with v1 = v2.
pub fn catmull_dense(pts: &[P2], per_span: usize) -> Vec<P2> {
    let n = pts.len();
    let mut out = Vec::new();
    if n < 2 {
        return pts.to_vec();
    }
    for i in 0..n - 1 {
        let v1 = if i > 0 { pts[i - 1] } else { pts[i] };
        let v2 = pts[i];
        let v3 = pts[i + 1];
        let v4 = if i + 2 < n {
            pts[i + 2]
        } else {
            (2.0 * v3.0 - v2.0, 2.0 * v3.1 - v2.1)
        };
        for k in 0..=per_span {
            let t = k as f64 / per_span as f64;
            let f = |a: f64, b: f64, c: f64, d: f64| {
                0.5 * (2.0 * b + (-a + c) * t + (2.0 * a - 5.0 * b + 4.0 * c - d) * t * t
                    + (-a + 3.0 * b - 3.0 * c + d) * t * t * t)
            };
            out.push((f(v1.0, v2.0, v3.0, v4.0), f(v1.1, v2.1, v3.1, v4.1)));
        }
    }
    out
}

/// Sampling bound for the 50-step Catmull polyline of `pts`:
/// max |P''| / 8 * (1/50)^2 over all spans.
pub fn catmull_sampling_bound(pts: &[P2]) -> f64 {
    let n = pts.len();
    let mut worst: f64 = 0.0;
    for i in 0..n.saturating_sub(1) {
        let v1 = if i > 0 { pts[i - 1] } else { pts[i] };
        let v2 = pts[i];
        let v3 = pts[i + 1];
        let v4 = if i + 2 < n {
            pts[i + 2]
        } else {
            (2.0 * v3.0 - v2.0, 2.0 * v3.1 - v2.1)
        };
        let a = (
            -v1.0 + 3.0 * v2.0 - 3.0 * v3.0 + v4.0,
            -v1.1 + 3.0 * v2.1 - 3.0 * v3.1 + v4.1,
        );
        let b = (
            2.0 * v1.0 - 5.0 * v2.0 + 4.0 * v3.0 - v4.0,
            2.0 * v1.1 - 5.0 * v2.1 + 4.0 * v3.1 - v4.1,
        );
        let na = (a.0 * a.0 + a.1 * a.1).sqrt();
        let nb = (b.0 * b.0 + b.1 * b.1).sqrt();
        // |P''(t)| = |0.5 * (6 a t + 2 b)| <= 3|a| + |b|
        worst = worst.max(3.0 * na + nb);
    }
    worst / 8.0 / 2500.0
}

pub struct Arc {
    pub centre: P2,
    pub radius: f64,
    pub theta0: f64,
    /// signed sweep from a to c through b
    pub sweep: f64,
}

/// The circular arc from `a` to `c` through `b`; `None` when (numerically)
/// collinear in f64.
pub fn arc_through(a: P2, b: P2, c: P2) -> Option<Arc> {
    let d = 2.0 * (a.0 * (b.1 - c.1) + b.0 * (c.1 - a.1) + c.0 * (a.1 - b.1));
    if d.abs() < 1e-12 {
        return None;
    }
    let a2 = a.0 * a.0 + a.1 * a.1;
    let b2 = b.0 * b.0 + b.1 * b.1;
    let c2 = c.0 * c.0 + c.1 * c.1;
    let centre = (
        (a2 * (b.1 - c.1) + b2 * (c.1 - a.1) + c2 * (a.1 - b.1)) / d,
        (a2 * (c.0 - b.0) + b2 * (a.0 - c.0) + c2 * (b.0 - a.0)) / d,
    );
    let radius = dist2(a, centre);
    let ang = |p: P2| (p.1 - centre.1).atan2(p.0 - centre.0);
    let (ta, tb, tc) = (ang(a), ang(b), ang(c));
    let tau = std::f64::consts::TAU;
    let norm = |x: f64| ((x % tau) + tau) % tau;
    // counter-clockwise sweep a->c passes b ?
    let ccw_ac = norm(tc - ta);
    let ccw_ab = norm(tb - ta);
    let sweep = if ccw_ab <= ccw_ac { ccw_ac } else { ccw_ac - tau };
    Some(Arc {
        centre,
        radius,
        theta0: ta,
        sweep,
    })
}

pub fn arc_dense(arc: &Arc, samples: usize) -> Vec<P2> {
    (0..=samples)
        .map(|k| {
            let t = arc.theta0 + arc.sweep * k as f64 / samples as f64;
            (
                arc.centre.0 + arc.radius * t.cos(),
                arc.centre.1 + arc.radius * t.sin(),
            )
        })
        .collect()
}

pub fn bezier_dense(ctrl: &[P2], samples: usize) -> Vec<P2> {
    (0..=samples)
        .map(|k| bezier_at(ctrl, k as f64 / samples as f64))
        .collect()
}

pub fn point_seg(p: P2, a: P2, b: P2) -> f64 {
    let (dx, dy) = (b.0 - a.0, b.1 - a.1);
    let l2 = dx * dx + dy * dy;
    if l2 == 0.0 {
        return dist2(p, a);
    }
    let t = (((p.0 - a.0) * dx + (p.1 - a.1) * dy) / l2).clamp(0.0, 1.0);
    dist2(p, (a.0 + t * dx, a.1 + t * dy))
}

pub fn point_polyline(p: P2, poly: &[P2]) -> f64 {
    if poly.len() == 1 {
        return dist2(p, poly[0]);
    }
    let mut best = f64::INFINITY;
    for w in poly.windows(2) {
        let d = point_seg(p, w[0], w[1]);
        if d < best {
            best = d;
        }
    }
    best
}

/// Directed distance: sup over the polyline `from` (vertices and segment
/// midpoints/quarter points) of the distance to polyline `to`.
pub fn directed(from: &[P2], to: &[P2], subdivide: usize) -> f64 {
    let mut worst: f64 = 0.0;
    if from.len() == 1 {
        return point_polyline(from[0], to);
    }
    for w in from.windows(2) {
        for k in 0..=subdivide {
            let t = k as f64 / subdivide.max(1) as f64;
            let p = (w[0].0 + (w[1].0 - w[0].0) * t, w[0].1 + (w[1].1 - w[0].1) * t);
            let d = point_polyline(p, to);
            if d > worst {
                worst = d;
            }
            if subdivide == 0 {
                break;
            }
        }
    }
    worst
}

pub fn hausdorff(path: &[P2], exact: &[P2]) -> f64 {
    directed(path, exact, 4).max(directed(exact, path, 1))
}

pub fn max_abs(pts: &[PathControlPoint]) -> f64 {
    pts.iter()
        .map(|p| f64::from(p.pos.x.abs().max(p.pos.y.abs())))
        .fold(0.0, f64::max)
}
