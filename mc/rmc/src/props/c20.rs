//! C20 — slider event stream has the legacy structure and timing.
//!
//! E1: exhaustive parameter grid against an eager reference list written from
//! the statement (closed forms, multiples of the tick distance).
//! E2: histories of iterators sharing one tick buffer (including abandoning an
//! iterator half-way): every consumed prefix equals the reference prefix.

use rosu_map::section::hit_objects::{SliderEvent, SliderEventType, SliderEventsIter};
use serde_json::{json, Value};

use crate::engine::{
    digits,
    e2::{self, Product, StepOut},
    finish, guarded, par_range, product, run_witnesses, Acc, Run, Summary, Tier, Violation,
};

#[derive(Clone, Copy, Debug, PartialEq)]
pub struct Params {
    pub start: f64,
    pub span_dur: f64,
    pub velocity: f64,
    pub tick_dist: f64,
    pub total: f64,
    pub spans: i32,
}

impl Params {
    fn json(&self) -> Value {
        json!({"start": self.start, "span_dur": self.span_dur, "velocity": self.velocity,
            "tick_dist": if self.tick_dist.is_finite() { json!(self.tick_dist) } else { json!("inf") },
            "total": self.total, "spans": self.spans})
    }
    fn from_json(v: &Value) -> Self {
        Self {
            start: v["start"].as_f64().unwrap(),
            span_dur: v["span_dur"].as_f64().unwrap(),
            velocity: v["velocity"].as_f64().unwrap(),
            tick_dist: v["tick_dist"].as_f64().unwrap_or(f64::INFINITY),
            total: v["total"].as_f64().unwrap(),
            spans: v["spans"].as_i64().unwrap() as i32,
        }
    }
}

/// One expected event; `optional` marks a tick whose distance lies within
/// rounding of the cut-off (either outcome is accepted).
#[derive(Clone, Debug)]
pub struct Exp {
    pub kind: SliderEventType,
    pub span: i32,
    pub span_start: f64,
    pub time: f64,
    pub progress: f64,
    pub optional: bool,
}

const REL: f64 = 1e-9;

/// Eager reference built from the statement.
pub fn reference(p: &Params) -> Vec<Exp> {
    let len = if p.total > 100_000.0 { 100_000.0 } else { p.total };
    let td = if p.tick_dist < 0.0 {
        0.0
    } else if p.tick_dist > len {
        len
    } else {
        p.tick_dist
    };
    let min_from_end = p.velocity * 10.0;
    // rounding slack only where rounding can occur: with integral tick
    // distance, length and cut-off all arithmetic is exact
    let exact = td.fract() == 0.0 && len.fract() == 0.0 && min_from_end.fract() == 0.0 && len < 1e15;
    let tol = if exact { 0.0 } else { REL * (len.abs() + 1.0) };
    // tick distances: multiples of the tick distance, none within
    // 10 ms of travel of the span end
    let mut dists: Vec<(f64, bool)> = Vec::new();
    if td > 0.0 {
        let mut k = 1.0f64;
        loop {
            let d = k * td;
            if d > len + tol || d >= len - min_from_end + tol {
                break;
            }
            let optional = !exact && (d >= len - min_from_end - tol || d > len - tol);
            dists.push((d, optional));
            k += 1.0;
            if k > 5_000_000.0 {
                break;
            }
        }
    }
    let mut out = Vec::new();
    out.push(Exp {
        kind: SliderEventType::Head,
        span: 0,
        span_start: p.start,
        time: p.start,
        progress: 0.0,
        optional: false,
    });
    for span in 0..p.spans {
        let span_start = p.start + f64::from(span) * p.span_dur;
        let reversed = span % 2 == 1;
        let mut ticks: Vec<Exp> = dists
            .iter()
            .map(|&(d, optional)| {
                let progress = d / len;
                let tp = if reversed { 1.0 - progress } else { progress };
                Exp {
                    kind: SliderEventType::Tick,
                    span,
                    span_start,
                    time: span_start + tp * p.span_dur,
                    progress,
                    optional,
                }
            })
            .collect();
        if reversed {
            ticks.reverse();
        }
        out.extend(ticks);
        if span < p.spans - 1 {
            out.push(Exp {
                kind: SliderEventType::Repeat,
                span,
                span_start,
                time: span_start + p.span_dur,
                progress: f64::from((span + 1) % 2),
                optional: false,
            });
        }
    }
    let total_dur = f64::from(p.spans) * p.span_dur;
    let fin = p.spans - 1;
    let fin_start = p.start + f64::from(fin) * p.span_dur;
    let half = p.start + total_dur / 2.0;
    let late = fin_start + p.span_dur - 36.0;
    let lt = if half > late { half } else { late };
    let mut lp = (lt - fin_start) / p.span_dur;
    if p.spans % 2 == 0 {
        lp = 1.0 - lp;
    }
    out.push(Exp {
        kind: SliderEventType::LastTick,
        span: fin,
        span_start: fin_start,
        time: lt,
        progress: lp,
        optional: false,
    });
    out.push(Exp {
        kind: SliderEventType::Tail,
        span: fin,
        span_start: fin_start,
        time: p.start + total_dur,
        progress: f64::from(p.spans % 2),
        optional: false,
    });
    out
}

fn close(a: f64, b: f64, scale: f64) -> bool {
    a == b || (a - b).abs() <= REL * (scale.abs() + 1.0)
}

fn ev_matches(e: &SliderEvent, x: &Exp, p: &Params) -> bool {
    let tscale = p.start.abs() + f64::from(p.spans) * p.span_dur.abs();
    e.kind == x.kind
        && e.span_idx == x.span
        && close(e.span_start_time, x.span_start, tscale)
        && close(e.time, x.time, tscale)
        && close(e.path_progress, x.progress, 1.0)
}

/// Compares a (prefix of a) real stream with the reference; `complete` says
/// whether the iterator was drained.
pub fn compare(p: &Params, got: &[SliderEvent], complete: bool) -> Option<(String, String)> {
    let want = reference(p);
    let mut wi = 0;
    for (gi, e) in got.iter().enumerate() {
        loop {
            let Some(x) = want.get(wi) else {
                return Some((
                    "extra-event".into(),
                    format!("event {gi} {e:?} beyond the reference stream ({} events)", want.len()),
                ));
            };
            wi += 1;
            if ev_matches(e, x, p) {
                break;
            }
            if x.optional {
                continue;
            }
            let class = match (e.kind, x.kind) {
                (a, b) if a != b => "structure",
                _ if e.span_idx != x.span => "structure",
                _ if e.kind == SliderEventType::Tick => "tick-placement",
                _ => "closed-form",
            };
            return Some((
                class.into(),
                format!("event {gi}: got {e:?}, reference {x:?}"),
            ));
        }
    }
    if complete {
        if let Some(x) = want[wi..].iter().find(|x| !x.optional) {
            return Some((
                "missing-event".into(),
                format!("stream ended after {} events, reference continues with {x:?}", got.len()),
            ));
        }
        // structural corollaries on the complete real stream
        if got.first().map(|e| e.kind) != Some(SliderEventType::Head)
            || got.last().map(|e| e.kind) != Some(SliderEventType::Tail)
            || got.iter().filter(|e| e.kind == SliderEventType::Repeat).count() as i32 != p.spans - 1
        {
            return Some(("structure".into(), format!("head/tail/repeat count wrong: {got:?}")));
        }
        // identical tick placement on every span
        let mut per_span: Vec<Vec<f64>> = vec![Vec::new(); p.spans as usize];
        for e in got.iter().filter(|e| e.kind == SliderEventType::Tick) {
            per_span[e.span_idx as usize].push(e.path_progress);
        }
        for s in per_span.iter_mut() {
            s.sort_by(|a, b| a.total_cmp(b));
        }
        if per_span.windows(2).any(|w| w[0] != w[1]) {
            return Some((
                "tick-placement".into(),
                format!("ticks differ between spans: {per_span:?}"),
            ));
        }
        // chronological within the stream up to LastTick (LastTick may precede ticks legitimately)
        let mut last = f64::NEG_INFINITY;
        for e in got.iter().filter(|e| e.kind != SliderEventType::LastTick) {
            if e.time < last - REL * (last.abs() + 1.0) {
                return Some(("structure".into(), format!("not chronological at {e:?}")));
            }
            last = e.time;
        }
    }
    None
}

fn run_real(p: &Params, buf: &mut Vec<SliderEvent>, take: Option<usize>) -> Vec<SliderEvent> {
    let it = SliderEventsIter::new(p.start, p.span_dur, p.velocity, p.tick_dist, p.total, p.spans, buf);
    match take {
        Some(n) => it.take(n).collect(),
        None => it.collect(),
    }
}

fn dirty_buffers() -> Vec<Vec<SliderEvent>> {
    let ev = |kind, span, t| SliderEvent {
        kind,
        span_idx: span,
        span_start_time: -1.0,
        time: t,
        path_progress: 0.5,
    };
    vec![
        Vec::new(),
        vec![
            ev(SliderEventType::Tick, 7, 123.0),
            ev(SliderEventType::Repeat, 3, 5.0),
            ev(SliderEventType::Tail, 0, 9.0),
        ],
    ]
}

fn grid(tier: Tier) -> (Vec<Vec<f64>>, Vec<u64>) {
    let t = tier.thorough();
    let spans: Vec<f64> = (1..=tier.pick(10, 16)).map(f64::from).collect();
    // tick distance as a fraction of the length: a dense dyadic ladder plus values next to the interesting fractions,
    // a negative one (clamped to zero) and "no ticks"
    let steps = tier.pick(64, 128);
    let mut ratio: Vec<f64> = (0..=steps * 3 / 2).map(|k| f64::from(k) / f64::from(steps)).collect();
    ratio.extend([0.01, 1.0 / 3.0, 0.49, 0.51, 0.99, -0.5, f64::INFINITY]);
    let len: Vec<f64> = if t {
        vec![0.5, 1.0, 10.0, 36.0, 50.0, 99.5, 100.0, 137.5, 360.0, 500.0, 1000.0, 20_000.0, 99_999.0, 100_000.0, 100_000.5, 150_000.0]
    } else {
        vec![1.0, 10.0, 50.0, 99.5, 100.0, 137.5, 500.0, 1000.0, 20_000.0, 99_999.0, 100_000.0, 150_000.0]
    };
    let vel: Vec<f64> = if t { vec![0.01, 0.1, 0.5, 1.0, 1.4, 2.5, 5.0, 9.95, 10.0, 20.0] } else { vec![0.1, 0.5, 1.0, 1.4, 2.5, 5.0, 9.95, 20.0] };
    let dur: Vec<f64> = if t {
        vec![1.0, 5.0, 10.0, 12.0, 17.9, 18.0, 24.0, 36.0, 71.9, 72.0, 72.1, 100.0, 333.3, 1000.0, 5000.0, 60_000.0]
    } else {
        vec![1.0, 10.0, 24.0, 36.0, 71.9, 72.0, 72.1, 100.0, 333.3, 1000.0, 5000.0, 60_000.0]
    };
    let start: Vec<f64> = if t { vec![0.0, 1000.5, -250.0, 1e7, -0.0, 2_147_483_647.0] } else { vec![0.0, 1000.5, -250.0, 1e7] };
    let menus = vec![spans, ratio, len, vel, dur, start];
    let radices = menus.iter().map(|m| m.len() as u64).collect();
    (menus, radices)
}

fn params_of(menus: &[Vec<f64>], d: &[usize]) -> Params {
    let total = menus[2][d[2]];
    let ratio = menus[1][d[1]];
    Params {
        spans: menus[0][d[0]] as i32,
        tick_dist: if ratio.is_finite() { ratio * total.min(100_000.0) } else { f64::INFINITY },
        total,
        velocity: menus[3][d[3]],
        span_dur: menus[4][d[4]],
        start: menus[5][d[5]],
    }
}

// ---------------------------------------------------------------------------
// E2: buffer histories

#[derive(Clone)]
struct Model {
    pool: std::sync::Arc<Vec<Params>>,
}

const TAKES: [Option<usize>; 5] = [Some(0), Some(1), Some(2), Some(4), None];

impl Product for Model {
    type S = Vec<SliderEvent>;
    type A = (u8, u8);

    fn name(&self) -> &'static str {
        "c20-tick-buffer"
    }
    fn init(&self) -> Vec<Self::S> {
        dirty_buffers()
    }
    fn actions(&self, _: &Self::S, out: &mut Vec<Self::A>) {
        for i in 0..self.pool.len() as u8 {
            for j in 0..TAKES.len() as u8 {
                out.push((i, j));
            }
        }
    }
    fn step(&self, s: &Self::S, a: &Self::A) -> StepOut<Self::S> {
        let p = self.pool[a.0 as usize];
        let take = TAKES[a.1 as usize];
        let mut buf = s.clone();
        match guarded(|| {
            let got = run_real(&p, &mut buf, take);
            (got, buf)
        }) {
            Ok((got, buf)) => {
                let bad = compare(&p, &got, take.is_none());
                StepOut { next: buf, bad }
            }
            Err(panic) => StepOut {
                next: s.clone(),
                bad: Some(("panic".into(), panic)),
            },
        }
    }
    fn key(&self, s: &Self::S) -> String {
        format!("{s:?}")
    }
    fn action_json(&self, a: &Self::A) -> Value {
        json!({"params": self.pool[a.0 as usize].json(), "take": TAKES[a.1 as usize]})
    }
}

fn pool() -> Vec<Params> {
    let mk = |spans, ratio: f64, total: f64, velocity, span_dur, start| Params {
        start,
        span_dur,
        velocity,
        tick_dist: ratio * total,
        total,
        spans,
    };
    vec![
        mk(1, 0.0, 100.0, 1.0, 100.0, 0.0),
        mk(1, 0.3, 100.0, 1.0, 100.0, 0.0),
        mk(2, 0.3, 100.0, 1.0, 100.0, 50.0),
        mk(3, 0.1, 1000.0, 0.5, 333.3, 1000.5),
        mk(4, 0.5, 50.0, 1.0, 1000.0, 0.0),
        mk(2, 0.05, 1000.0, 5.0, 100.0, 0.0),
        mk(5, 1.0, 100.0, 1.0, 72.0, 0.0),
        mk(6, 0.25, 150_000.0, 1.0, 1000.0, 0.0),
    ]
}

/// skip / nth / step_by / count / last at every position against the stream `next()` yields
fn positional(p: &Params, di: usize, acc: &mut Acc) -> Option<String> {
    let dirty = dirty_buffers();
    let all = run_real(p, &mut dirty[di].clone(), None);
    fn mk<'a>(p: &Params, buf: &'a mut Vec<SliderEvent>) -> SliderEventsIter<'a> {
        SliderEventsIter::new(p.start, p.span_dur, p.velocity, p.tick_dist, p.total, p.spans, buf)
    }
    let bits = |v: &[SliderEvent]| v.iter().map(|e| (e.kind as u8, e.span_idx, e.span_start_time.to_bits(), e.time.to_bits(), e.path_progress.to_bits())).collect::<Vec<_>>();
    for k in 0..=all.len() + 1 {
        acc.evals += 3;
        acc.transitions += 3;
        let mut b = dirty[di].clone();
        let got: Vec<SliderEvent> = mk(p, &mut b).skip(k).collect();
        if bits(&got) != bits(&all[k.min(all.len())..]) {
            return Some(format!("skip({k}) yields {} events, the stream from event {k} has {}", got.len(), all.len().saturating_sub(k)));
        }
        let mut b = dirty[di].clone();
        let mut it = mk(p, &mut b);
        let kth = it.nth(k);
        let rest: Vec<SliderEvent> = it.collect();
        let want_rest = &all[(k + 1).min(all.len())..];
        if bits(kth.as_slice()) != bits(all.get(k).map(std::slice::from_ref).unwrap_or(&[])) || bits(&rest) != bits(want_rest) {
            return Some(format!("nth({k}) = {kth:?}, then {} events; the stream has {:?} there, then {}", rest.len(), all.get(k), want_rest.len()));
        }
        if k >= 1 {
            let mut b = dirty[di].clone();
            let got: Vec<SliderEvent> = mk(p, &mut b).step_by(k).collect();
            let want: Vec<SliderEvent> = all.iter().step_by(k).cloned().collect();
            if bits(&got) != bits(&want) {
                return Some(format!("step_by({k}) yields {} events, expected {}", got.len(), want.len()));
            }
        }
    }
    // internal iteration and the size hint agree with next()
    let mut b = dirty[di].clone();
    let folded: Vec<SliderEvent> = mk(p, &mut b).fold(Vec::new(), |mut v, e| {
        v.push(e);
        v
    });
    if bits(&folded) != bits(&all) {
        return Some(format!("fold() visits {} events, next() yields {}", folded.len(), all.len()));
    }
    let mut b = dirty[di].clone();
    let mut it = mk(p, &mut b);
    let mut remaining = all.len();
    loop {
        let (lo, hi) = it.size_hint();
        if lo > remaining || hi.is_some_and(|h| h < remaining) {
            return Some(format!("size_hint() = ({lo}, {hi:?}) with {remaining} events left"));
        }
        if it.next().is_none() {
            break;
        }
        remaining -= 1;
    }
    if it.next().is_some() {
        return Some("next() yields an event after it returned None".into());
    }
    // consuming adaptors after k events were taken with next(), including on the exhausted iterator
    for k in 0..=all.len() + 1 {
        acc.evals += 2;
        acc.transitions += 2;
        let mut b = dirty[di].clone();
        let mut it = mk(p, &mut b);
        for _ in 0..k {
            let _ = it.next();
        }
        let want_last = if k < all.len() { all.last() } else { None };
        let got_last = it.last();
        if bits(got_last.as_slice()) != bits(want_last.map(std::slice::from_ref).unwrap_or(&[])) {
            return Some(format!("last() after {k} of {} events were taken with next() = {got_last:?}, expected {want_last:?}", all.len()));
        }
        let mut b = dirty[di].clone();
        let mut it = mk(p, &mut b);
        for _ in 0..k {
            let _ = it.next();
        }
        let n = it.count();
        if n != all.len().saturating_sub(k) {
            return Some(format!("count() after {k} of {} events = {n}", all.len()));
        }
    }
    let mut b = dirty[di].clone();
    if mk(p, &mut b).count() != all.len() {
        return Some("count() differs from the number of events next() yields".into());
    }
    let mut b = dirty[di].clone();
    if bits(mk(p, &mut b).last().as_slice()) != bits(all.last().map(std::slice::from_ref).unwrap_or(&[])) {
        return Some("last() differs from the last event next() yields".into());
    }
    None
}

pub fn replay(case: &Value) -> Vec<Violation> {
    let mut out = Vec::new();
    if case["kind"] == "history" {
        let mut buf = dirty_buffers()[case["init"].as_u64().unwrap_or(0) as usize].clone();
        for (i, a) in case["actions"].as_array().unwrap().iter().enumerate() {
            let p = Params::from_json(&a["params"]);
            let take = a["take"].as_u64().map(|n| n as usize);
            let got = run_real(&p, &mut buf, take);
            if let Some((class, summary)) = compare(&p, &got, take.is_none()) {
                out.push(Violation::new(class, format!("step {i}: {summary}"), case.clone()));
                break;
            }
        }
    } else if case["kind"] == "positional" {
        let p = Params::from_json(&case["params"]);
        let di = case["dirty"].as_u64().unwrap_or(0) as usize;
        if let Some(msg) = positional(&p, di, &mut Acc::new()) {
            out.push(Violation::new("positional-access", format!("{p:?}: {msg}"), case.clone()));
        }
    } else {
        let p = Params::from_json(&case["params"]);
        let mut buf = dirty_buffers()[case["dirty"].as_u64().unwrap_or(0) as usize].clone();
        let got = run_real(&p, &mut buf, None);
        if let Some((class, summary)) = compare(&p, &got, true) {
            out.push(Violation::new(class, format!("{p:?}: {summary}"), case.clone()));
        }
    }
    out
}

pub fn run(tier: Tier) -> i32 {
    let run = Run::new("C20", tier, "model_checking");
    let mut acc = Acc::new();
    run_witnesses("C20", &mut acc, &replay);

    let (menus, radices) = grid(tier);
    let dirty = dirty_buffers();
    let total = product(&radices) * dirty.len() as u64;
    let g = par_range(total, |idx, acc| {
        let di = (idx % dirty.len() as u64) as usize;
        let mut d = Vec::new();
        digits(idx / dirty.len() as u64, &radices, &mut d);
        let p = params_of(&menus, &d);
        let mut buf = dirty[di].clone();
        let _g = crate::engine::watch::guard("params", |s| s.push_str(&p.json().to_string()));
        acc.evals += 1;
        acc.states += 1;
        match guarded(|| run_real(&p, &mut buf, None)) {
            Ok(got) => {
                acc.transitions += got.len() as u64;
                if got.iter().any(|e| e.kind == SliderEventType::Tick) {
                    // non-trivial: the stream contains ticks; distinct by shape
                    let shape: Vec<(u8, i32)> = got.iter().map(|e| (e.kind as u8, e.span_idx)).collect();
                    acc.nontrivial(&(shape, d[1], d[2]));
                }
                if let Some((class, summary)) = compare(&p, &got, true) {
                    acc.violation(Violation::new(
                        class,
                        format!("{p:?} dirty={di}: {summary}"),
                        json!({"kind": "grid", "params": p.json(), "dirty": di}),
                    ));
                }
                if idx % 1013 == 0 {
                    acc.sample(|| json!({"params": p.json(), "events": got.len()}));
                }
            }
            Err(panic) => acc.violation(Violation::new(
                "panic",
                format!("{p:?}: {panic}"),
                json!({"kind": "grid", "params": p.json(), "dirty": di}),
            )),
        }
    });
    acc = acc.merge(g);
    acc.count("grid_points", total);

    // positional consumption: skip / nth / step_by / last / count see the same stream as next()
    let pos_pool = pool();
    let pos = par_range(pos_pool.len() as u64 * dirty.len() as u64, |idx, acc| {
        let p = pos_pool[(idx / dirty.len() as u64) as usize];
        let di = (idx % dirty.len() as u64) as usize;
        if let Some(msg) = positional(&p, di, acc) {
            acc.violation(Violation::new("positional-access", format!("{p:?} dirty={di}: {msg}"), json!({"kind": "positional", "params": p.json(), "dirty": di})));
        }
    });
    acc = acc.merge(pos);

    let mut e2acc = Acc::new();
    let depth: &[u16] = tier.pick(&[3], &[4]);
    let res = e2::run(
        "C20",
        Model {
            pool: std::sync::Arc::new(pool()),
        },
        depth,
        200_000_000,
        &mut e2acc,
    );
    e2acc.evals += e2acc.transitions;
    e2acc.distinct_measured = Some(e2acc.states);
    let acc = acc.merge(e2acc);
    let summary = Summary {
        rule: "E1: every point of the parameter grid (span count x tick-distance ratio x length x velocity x span duration \
               x start) x {clean, dirty} tick buffer, real iterator drained and compared event by event with an eager \
               reference (kinds, span indices, closed-form times/progress to 1e-9 relative, ticks at multiples of the tick \
               distance, min-distance cut-off, same placement on every span, repeat count). Non-trivial = streams with \
               ticks, distinct by (event shape, ratio, length). E2: BFS over tick-buffer contents, action = (parameter set, \
               consume 0/1/2/4/all events then drop); every consumed prefix must equal the reference prefix. Positional access (skip, nth, \
               step_by, count, last at every position) over the E2 pool must see the stream that next() yields."
            .into(),
        bounds: json!({"grid": radices, "grid_points": total, "e2_pool": pool().len(), "e2_takes": TAKES.len(),
            "e2_completed_depth": res.completed_depth, "e2_per_depth": res.per_depth}),
        exhaustive: res.capped_at_depth.is_none(),
        caps_hit: vec![],
        assumptions: vec![
            "parameters restricted to the grid menus (finite, positive durations; one negative tick distance; NaN not covered)".into(),
            "a tick whose distance is within 1e-9 relative of the cut-off may be present or absent".into(),
        ],
    };
    finish(&run, acc, summary)
}
