// Shared by the `rmc` (default features) and `rmc-tr` (tracing feature) crates
// through `#[path]`: the per-input totality check of C01.  Self-contained: only
// std and rosu_map.

use rosu_map::{
    section::{
        colors::Colors, difficulty::Difficulty, editor::Editor, events::Events, general::General,
        hit_objects::HitObjects, metadata::Metadata, timing_points::TimingPoints,
    },
    Beatmap,
};

pub struct Outcome {
    /// (class, message)
    pub failures: Vec<(String, String)>,
    pub objects: usize,
    pub reencoded_len: usize,
}

/// Runs `f` and turns a panic into Err(message).
pub type Guard<'a> = &'a dyn Fn(&mut dyn FnMut()) -> Result<(), String>;

pub const DECODERS: [&str; 9] = [
    "Beatmap",
    "General",
    "Editor",
    "Metadata",
    "Difficulty",
    "Events",
    "Colors",
    "TimingPoints",
    "HitObjects",
];

/// Decodes `bytes` with all nine decoder types, re-encodes the Beatmap and
/// decodes the encoding again.  Every deviation from "terminates, returns Ok"
/// is reported.
pub fn totality(bytes: &[u8], guard: Guard<'_>) -> Outcome {
    let mut out = Outcome {
        failures: Vec::new(),
        objects: 0,
        reencoded_len: 0,
    };
    macro_rules! dec {
        ($t:ty, $name:expr) => {{
            let mut res: Option<std::io::Result<$t>> = None;
            match guard(&mut || res = Some(rosu_map::from_bytes::<$t>(bytes))) {
                Ok(()) => match res {
                    Some(Ok(v)) => Some(v),
                    Some(Err(e)) => {
                        out.failures.push((
                            "decode-returned-err".into(),
                            format!("{} decoder returned Err({:?}) on an in-memory buffer", $name, e.kind()),
                        ));
                        None
                    }
                    None => None,
                },
                Err(p) => {
                    out.failures.push(("panic".into(), format!("{} decoder panicked: {p}", $name)));
                    None
                }
            }
        }};
    }
    let map = dec!(Beatmap, "Beatmap");
    let _ = dec!(General, "General");
    let _ = dec!(Editor, "Editor");
    let _ = dec!(Metadata, "Metadata");
    let _ = dec!(Difficulty, "Difficulty");
    let _ = dec!(Events, "Events");
    let _ = dec!(Colors, "Colors");
    let _ = dec!(TimingPoints, "TimingPoints");
    let _ = dec!(HitObjects, "HitObjects");
    if let Some(mut map) = map {
        out.objects = map.hit_objects.len();
        let mut enc: Option<std::io::Result<String>> = None;
        match guard(&mut || enc = Some(map.encode_to_string())) {
            Ok(()) => match enc {
                Some(Ok(text)) => {
                    out.reencoded_len = text.len();
                    // a String is valid UTF-8 by construction; make the claim explicit
                    if std::str::from_utf8(text.as_bytes()).is_err() {
                        out.failures.push(("encode-invalid-utf8".into(), "encoded text is not valid UTF-8".into()));
                    }
                    let mut again: Option<std::io::Result<Beatmap>> = None;
                    match guard(&mut || again = Some(rosu_map::from_str::<Beatmap>(&text))) {
                        Ok(()) => {
                            if let Some(Err(e)) = again {
                                out.failures.push(("decode-returned-err".into(), format!("decoding the re-encoded text returned Err({:?})", e.kind())));
                            }
                        }
                        Err(p) => out.failures.push(("panic".into(), format!("decoding the re-encoded text panicked: {p}"))),
                    }
                }
                Some(Err(e)) => out.failures.push(("encode-returned-err".into(), format!("encode_to_string returned Err({:?}): {e}", e.kind()))),
                None => {}
            },
            Err(p) => out.failures.push(("panic".into(), format!("encode_to_string panicked: {p}"))),
        }
    }
    out
}
