//! E2: explicit-state product search with stateright.
//!
//! A [`Product`] supplies the real implementation state paired with the
//! reference-model state, an operation alphabet and a step function that calls
//! the REAL code and compares with the reference.  The wrapper deduplicates on a
//! canonical key (plus depth, so that counts are deterministic under parallel
//! search), bounds the depth, and turns the first failing transition into a
//! replayable operation list.

use std::{
    collections::BTreeMap,
    fmt::Debug,
    hash::{Hash, Hasher},
    sync::{Arc, Mutex},
};

use serde_json::{json, Value};
use stateright::{Checker, Model, Property};

use super::{load_findings, Acc, Violation};

pub struct StepOut<S> {
    pub next: S,
    /// (class, summary) if the oracle failed on this transition
    pub bad: Option<(String, String)>,
}

pub trait Product: Send + Sync + 'static {
    type S: Clone + Send + Sync + 'static;
    type A: Clone + Debug + PartialEq + Send + Sync + 'static;

    fn name(&self) -> &'static str;
    fn init(&self) -> Vec<Self::S>;
    fn actions(&self, s: &Self::S, out: &mut Vec<Self::A>);
    /// Calls the real code; must be deterministic.
    fn step(&self, s: &Self::S, a: &Self::A) -> StepOut<Self::S>;
    /// Canonical snapshot of BOTH halves of the state (complete: identical
    /// keys imply identical futures).
    fn key(&self, s: &Self::S) -> String;
    fn action_json(&self, a: &Self::A) -> Value;
}

pub struct St<S> {
    pub inner: S,
    pub depth: u16,
    pub init_idx: u16,
    key: u64,
    bad: Option<Arc<(String, String)>>,
}

impl<S: Clone> Clone for St<S> {
    fn clone(&self) -> Self {
        Self {
            inner: self.inner.clone(),
            depth: self.depth,
            init_idx: self.init_idx,
            key: self.key,
            bad: self.bad.clone(),
        }
    }
}
impl<S> PartialEq for St<S> {
    fn eq(&self, o: &Self) -> bool {
        self.key == o.key && self.depth == o.depth && self.bad.is_some() == o.bad.is_some()
    }
}
impl<S> Hash for St<S> {
    fn hash<H: Hasher>(&self, h: &mut H) {
        self.key.hash(h);
        self.depth.hash(h);
        self.bad.is_some().hash(h);
    }
}
impl<S> Debug for St<S> {
    fn fmt(&self, f: &mut std::fmt::Formatter<'_>) -> std::fmt::Result {
        write!(f, "St(depth={}, key={:016x})", self.depth, self.key)
    }
}

struct Wrap<P: Product> {
    p: P,
    max_depth: u16,
    known_classes: Vec<String>,
    known_hits: Mutex<BTreeMap<String, (u64, String)>>,
    steps: std::sync::atomic::AtomicU64,
}

impl<P: Product> Model for Wrap<P> {
    type State = St<P::S>;
    type Action = P::A;

    fn init_states(&self) -> Vec<Self::State> {
        self.p
            .init()
            .into_iter()
            .enumerate()
            .map(|(i, s)| St {
                key: super::hash64(&(i, self.p.key(&s))),
                inner: s,
                depth: 0,
                init_idx: i as u16,
                bad: None,
            })
            .collect()
    }

    fn actions(&self, s: &Self::State, out: &mut Vec<Self::Action>) {
        if s.bad.is_some() || s.depth >= self.max_depth {
            return;
        }
        self.p.actions(&s.inner, out);
    }

    fn next_state(&self, s: &Self::State, a: Self::Action) -> Option<Self::State> {
        self.steps.fetch_add(1, std::sync::atomic::Ordering::Relaxed);
        let _g = super::watch::guard("e2-action", |t| t.push_str(&format!("{} depth {} action {a:?}", self.p.name(), s.depth)));
        let out = self.p.step(&s.inner, &a);
        let mut bad = None;
        if let Some((class, summary)) = out.bad {
            if self.known_classes.iter().any(|k| *k == class) {
                let mut g = self.known_hits.lock().unwrap();
                let e = g.entry(class).or_insert((0, summary));
                e.0 += 1;
            } else {
                bad = Some(Arc::new((class, summary)));
            }
        }
        let key = super::hash64(&(s.init_idx, self.p.key(&out.next)));
        Some(St {
            inner: out.next,
            depth: s.depth + 1,
            init_idx: s.init_idx,
            key,
            bad,
        })
    }

    fn properties(&self) -> Vec<Property<Self>> {
        vec![Property::always("oracle", |_, s: &St<P::S>| s.bad.is_none())]
    }
}

pub struct E2Result {
    pub completed_depth: Option<u16>,
    pub capped_at_depth: Option<u16>,
    pub per_depth: Vec<Value>,
}

/// Runs the product search for depth 1, 2, … `max_depth` (each a complete BFS
/// from the initial states) until `state_cap` generated states would be
/// exceeded.  Records counts of the deepest run into `acc`.
pub fn run<P: Product + Clone>(prop: &str, p: P, depths: &[u16], state_cap: usize, acc: &mut Acc) -> E2Result {
    run_opts(prop, p, depths, state_cap, false, acc)
}

/// `dfs = true` uses stateright's depth-first checker: the same (state, depth)
/// set is visited, with far less memory (no frontier of cloned states); the
/// counter-example found first is then not necessarily a shortest one.
pub fn run_opts<P: Product + Clone>(
    prop: &str,
    p: P,
    depths: &[u16],
    state_cap: usize,
    dfs: bool,
    acc: &mut Acc,
) -> E2Result {
    let known_classes: Vec<String> = load_findings()
        .into_iter()
        .filter(|f| f.property == prop && f.status == "known")
        .map(|f| f.class)
        .collect();
    let threads = std::thread::available_parallelism().map_or(8, |n| n.get());
    let mut res = E2Result {
        completed_depth: None,
        capped_at_depth: None,
        per_depth: Vec::new(),
    };
    let mut final_counts = (0u64, 0u64);
    for &d in depths {
        let wrap = Wrap {
            p: p.clone(),
            max_depth: d,
            known_classes: known_classes.clone(),
            known_hits: Mutex::new(BTreeMap::new()),
            steps: std::sync::atomic::AtomicU64::new(0),
        };
        let t0 = std::time::Instant::now();
        let builder = wrap.checker().threads(threads).target_state_count(state_cap);
        let (generated_sr, unique, discovery, steps, known_hits) = if dfs {
            let c = builder.spawn_dfs().join();
            (
                c.state_count(),
                c.unique_state_count() as u64,
                c.discovery("oracle"),
                c.model().steps.load(std::sync::atomic::Ordering::Relaxed),
                {
                    let hits = c.model().known_hits.lock().unwrap().clone();
                    hits
                },
            )
        } else {
            let c = builder.spawn_bfs().join();
            (
                c.state_count(),
                c.unique_state_count() as u64,
                c.discovery("oracle"),
                c.model().steps.load(std::sync::atomic::Ordering::Relaxed),
                {
                    let hits = c.model().known_hits.lock().unwrap().clone();
                    hits
                },
            )
        };
        let generated = steps;
        let capped = discovery.is_none() && generated_sr >= state_cap;
        res.per_depth.push(json!({
            "model": p.name(), "depth": d, "search": if dfs { "dfs" } else { "bfs" }, "unique_states": unique, "transitions": generated, "stateright_state_count": generated_sr,
            "complete": !capped && discovery.is_none(), "wall_s": t0.elapsed().as_secs_f64()
        }));
        eprintln!(
            "  [E2 {}] depth={} unique={} generated={} capped={} violation={} ({:.1}s)",
            p.name(),
            d,
            unique,
            generated,
            capped,
            discovery.is_some(),
            t0.elapsed().as_secs_f64()
        );
        for (class, (n, summary)) in known_hits.iter() {
            for _ in 0..1 {
                acc.violation(Violation::new(
                    class.clone(),
                    summary.clone(),
                    json!({"kind": "e2-known", "model": p.name()}),
                ));
            }
            *acc.viol_counts.entry(class.clone()).or_insert(0) += n - 1;
        }
        if let Some(path) = discovery {
            let last = path.last_state().clone();
            let init_idx = last.init_idx;
            let actions: Vec<Value> = path
                .into_actions()
                .iter()
                .map(|a| p.action_json(a))
                .collect();
            let (class, summary) = last
                .bad
                .as_ref()
                .map(|b| (b.0.clone(), b.1.clone()))
                .unwrap_or(("unknown".into(), "oracle failed".into()));
            acc.violation(Violation::new(
                class,
                format!("[{} depth {}] {}", p.name(), actions.len(), summary),
                json!({"kind": "history", "model": p.name(), "init": init_idx, "actions": actions}),
            ));
            acc.states += unique;
            acc.transitions += generated;
            return res;
        }
        // counts of the deepest run (complete or capped) are reported
        final_counts = (unique, generated);
        if capped {
            res.capped_at_depth = Some(d);
            break;
        }
        res.completed_depth = Some(d);
    }
    acc.states += final_counts.0;
    acc.transitions += final_counts.1;
    res
}
