pub mod c12;
pub mod c13;
pub mod c20;
pub mod c18;
pub mod curves;
pub mod c16;
pub mod c19;
pub mod c17;
