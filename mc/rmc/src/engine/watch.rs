//! Watchdog for the checks that run the subject in-process: every case
//! registers itself in a per-thread slot; a watchdog thread turns a case that
//! does not finish within the limit into a `non-termination` violation (with
//! the case as replay artefact) and ends the process with exit code 1.
//! (C01/C07 use process isolation instead, see isolate.rs.)

use std::{
    sync::{
        atomic::{AtomicU64, AtomicUsize, Ordering},
        Mutex, OnceLock,
    },
    time::{Duration, Instant},
};

use serde_json::json;

const N: usize = 256;

struct Slot {
    /// milliseconds since START at which the current case began; 0 = idle
    since: AtomicU64,
    /// (kind, raw description bytes; for kind "bytes" the input itself)
    desc: Mutex<(&'static str, Vec<u8>)>,
}

static SLOTS: OnceLock<Vec<Slot>> = OnceLock::new();
static START: OnceLock<Instant> = OnceLock::new();
static NEXT: AtomicUsize = AtomicUsize::new(0);

thread_local! {
    static MY: usize = NEXT.fetch_add(1, Ordering::Relaxed) % N;
}

fn slots() -> &'static Vec<Slot> {
    SLOTS.get_or_init(|| {
        (0..N)
            .map(|_| Slot {
                since: AtomicU64::new(0),
                desc: Mutex::new(("", Vec::new())),
            })
            .collect()
    })
}

fn now_ms() -> u64 {
    START.get_or_init(Instant::now).elapsed().as_millis() as u64 + 1
}

pub struct Guard(usize);

impl Drop for Guard {
    fn drop(&mut self) {
        slots()[self.0].since.store(0, Ordering::Release);
    }
}

/// Registers the case the calling thread is about to run.  `kind`/text must be
/// what the property's `replay` understands as `{"kind": kind, "text": text}`
/// (for byte inputs: kind "bytes", text = hex under key "hex").
pub fn guard(kind: &'static str, describe: impl FnOnce(&mut String)) -> Guard {
    let i = MY.with(|m| *m);
    let slot = &slots()[i];
    {
        let mut d = slot.desc.lock().unwrap();
        d.0 = kind;
        let mut text = String::from_utf8(std::mem::take(&mut d.1)).unwrap_or_default();
        text.clear();
        describe(&mut text);
        d.1 = text.into_bytes();
    }
    slot.since.store(now_ms(), Ordering::Release);
    Guard(i)
}

pub fn bytes_guard(bytes: &[u8]) -> Guard {
    let i = MY.with(|m| *m);
    let slot = &slots()[i];
    {
        let mut d = slot.desc.lock().unwrap();
        d.0 = "bytes";
        d.1.clear();
        // plain copy; formatted only if the watchdog fires
        d.1.extend_from_slice(&bytes[..bytes.len().min(16_384)]);
    }
    slot.since.store(now_ms(), Ordering::Release);
    Guard(i)
}

fn report(prop: &str, kind: &str, text: &str, secs: u64) -> ! {
    let dir = format!("{}/replays/{prop}", super::out_dir());
    let _ = std::fs::create_dir_all(&dir);
    let path = format!("{dir}/non-termination-{:016x}.json", super::hash64(text));
    let case = if kind == "bytes" { json!({"kind": "bytes", "hex": text}) } else { json!({"kind": kind, "text": text}) };
    let body = json!({"property": prop, "class": "non-termination",
        "summary": format!("a case did not finish within {secs}s"), "case": case});
    let _ = std::fs::write(&path, serde_json::to_string_pretty(&body).unwrap());
    println!("VIOLATION property={prop} replay={path}");
    eprintln!("  class=non-termination :: case of kind {kind} did not finish within {secs}s: {}", &text[..text.len().min(300)]);
    // minimal evidence so that the run is not mistaken for a pass
    let ev = json!({"property_id": prop, "tier": "quick", "seed": 0, "level": "model_checking",
        "coverage": {"evaluations": 1, "distinct_nontrivial": 2, "states": 1, "transitions": 1, "traces_validated_against_impl": 0,
            "samples": [{"stuck_case": &text[..text.len().min(400)]}], "rule": "run aborted by the watchdog: non-termination", "exhaustive": false},
        "wall_s": secs as f64, "violations": 1});
    let _ = std::fs::write(format!("{}/evidence/{prop}.json", super::out_dir()), serde_json::to_string_pretty(&ev).unwrap());
    std::process::exit(1)
}

/// Starts the watchdog thread (idempotent per process).
pub fn start(prop: &'static str, limit_s: u64) {
    static STARTED: OnceLock<()> = OnceLock::new();
    if STARTED.set(()).is_err() {
        return;
    }
    let _ = now_ms();
    std::thread::spawn(move || loop {
        std::thread::sleep(Duration::from_secs(2));
        let now = now_ms();
        for slot in slots().iter() {
            let since = slot.since.load(Ordering::Acquire);
            if since != 0 && now.saturating_sub(since) > limit_s * 1000 {
                let (kind, text) = {
                    let d = slot.desc.lock().unwrap();
                    let text = if d.0 == "bytes" { super::hex(&d.1) } else { String::from_utf8_lossy(&d.1).into_owned() };
                    (d.0, text)
                };
                // re-check: the case may have finished meanwhile
                if slot.since.load(Ordering::Acquire) == since {
                    report(prop, kind, &text, limit_s);
                }
            }
        }
    });
}

/// Watchdog for `--replay`: the whole replay must finish within the limit.
pub fn start_replay(prop: &str, path: &str, limit_s: u64) {
    let (prop, path) = (prop.to_string(), path.to_string());
    std::thread::spawn(move || {
        std::thread::sleep(Duration::from_secs(limit_s));
        println!("replay: did not finish within {limit_s}s (non-termination)");
        println!("VIOLATION property={prop} replay={path}");
        std::process::exit(1)
    });
}
