#!/usr/bin/env python3
"""Regenerates /verif/MANIFEST.json from the table below (keeps it valid at all times)."""
import json, os, subprocess

ROOT = os.path.dirname(os.path.dirname(os.path.abspath(__file__)))

# id -> (built, category, technique, level text, level note, design ref, engine)
P = {}

def prop(pid, built, cat, technique, text, note, ref, engine):
    P[pid] = dict(built=built, cat=cat, technique=technique, text=text, note=note, ref=ref, engine=engine)

E1 = "E1 choice-tree / product enumerator (rmc)"
E2 = "E2 stateright product search (rmc)"

prop("C13", True, "model_checking",
     "explicit-state BFS (stateright) over real ControlPoints x linear-scan reference, all add-histories to a depth bound",
     "Every sequence of add operations over the alphabet up to the completed depth is executed on the real collection; after every transition the four lists and all four lookups at 11 probe times are compared with a linear-scan reference. States are deduplicated on the full Debug snapshot of both halves plus depth.",
     "Trusted: the 60-line linear-scan reference; 64-bit fingerprints; times outside the alphabet (e.g. -0.0, NaN) are not covered.",
     "DESIGN.md 3/C13", E2)

prop("C12", True, "model_checking",
     "explicit-state BFS (stateright) over cloned real TimingPointsState x incremental legacy model; exhaustive line sequences through from_str vs batch definition",
     "Every history of timing-point lines over the alphabet up to the completed depth is fed line by line to the real parse_timing_points on a clone of the real state; after every transition the converted lists are compared with the legacy precedence model, which is itself checked against the batch definition on every enumerated sequence. Single-line field products cover parse limits, defaults and clamps.",
     "Trusted: the reference line parser and batch definition written from the statement; Debug snapshot of TimingPointsState as complete dedup key (verif hook); values outside the alphabets/menus.",
     "DESIGN.md 3/C12", E2)

prop("C20", True, "model_checking",
     "exhaustive parameter-grid enumeration against an eager reference list + explicit-state BFS over tick-buffer histories",
     "Every grid point (span count x tick ratio x length x velocity x duration x start x clean/dirty buffer) is run through the real iterator and compared event by event with an eager reference built from the statement; the buffer-history model (abandoned iterators included) is searched breadth-first and every consumed prefix compared.",
     "Trusted: the eager reference (closed forms); 1e-9 relative tolerance on times, exact cut-off where arithmetic is exact; parameters outside the menus.",
     "DESIGN.md 3/C20", E2)

NOT_BUILT_REASON = "check not built yet in this session (planned, see DESIGN.md section 3); not claimed until it exists"

def main():
    props = [json.loads(l) for l in open(os.path.join(ROOT, "properties.jsonl"))]
    checks, na = [], []
    for p in props:
        pid = p["id"]
        e = P.get(pid)
        if e and e["built"]:
            checks.append({
                "property_id": pid,
                "quick_cmd": f"./check {pid} quick",
                "thorough_cmd": f"./check {pid} thorough",
                "evidence_file": f"/verif/evidence/{pid}.json",
                "replay_cmd_template": f"./check {pid} --replay {{path}}",
                "engine": e["engine"],
                "level_claimed": {"category": e["cat"], "text": e["text"], "design_ref": e["ref"]},
                "level_note": e["note"],
                "technique": e["technique"],
            })
        else:
            na.append({"property_id": pid, "reason": (e or {}).get("na_reason", NOT_BUILT_REASON)})
    try:
        hook_commits = subprocess.check_output(
            ["git", "-C", "/repo", "log", "--format=%H", "--grep=^verif hooks"], text=True).split()
    except Exception:
        hook_commits = []
    m = {
        "version": 1,
        "setup_cmd": "./check --build",
        "hooks": {
            "guard": "--cfg rosu_map_verif",
            "enable": "rustflags = [\"--cfg\", \"rosu_map_verif\"] in /verif/mc/.cargo/config.toml (the driver ./check builds from /verif/mc and clears inherited RUSTFLAGS)",
            "baseline_off_cmd": "cd /repo && cargo test --workspace --no-fail-fast --offline",
            "source_commits": hook_commits,
            "add_only": True,
        },
        "engines": [
            {"name": "E1", "path": "/verif/mc/rmc/src/engine/tree.rs", "kind_free_text": "stateless choice-tree explorer with deviation bounds + exhaustive product enumeration, real code executed on every vector",
             "serves_properties": sorted(k for k, v in P.items() if v["built"] and v["engine"] == E1)},
            {"name": "E2", "path": "/verif/mc/rmc/src/engine/e2.rs", "kind_free_text": "explicit-state BFS (stateright 0.31) over (real implementation state x reference model)",
             "serves_properties": sorted(k for k, v in P.items() if v["built"] and v["engine"] == E2)},
        ],
        "checks": checks,
        "not_applicable": na,
        "notes": "All checks are bounded exhaustive exploration of the real code (no sampling). ./check exits 3 on machinery errors. Known findings: /verif/known_findings.json.",
    }
    json.dump(m, open(os.path.join(ROOT, "MANIFEST.json"), "w"), indent=1)
    print(f"MANIFEST.json: {len(checks)} checks, {len(na)} not_applicable")

if __name__ == "__main__":
    main()
