#!/usr/bin/env python3
"""Regenerates /verif/MANIFEST.json from the table below (keeps it valid at all times)."""
import json, os, subprocess

ROOT = os.path.dirname(os.path.dirname(os.path.abspath(__file__)))

# id -> (built, category, technique, level text, level note, design ref, engine)
P = {}

def prop(pid, built, cat, technique, text, note, ref, engine):
    P[pid] = dict(built=built, cat=cat, technique=technique, text=text, note=note, ref=ref, engine=engine)

E1 = "E1 choice-tree / product enumerator (rmc)"
E2 = "E2 stateright product search (rmc)"

prop("C13", True, "model_checking",
     "explicit-state BFS (stateright) over real ControlPoints x linear-scan reference, all add-histories to a depth bound",
     "Every sequence of add operations over the alphabet up to the completed depth is executed on the real collection; after every transition the four lists and all four lookups at 16 probe times are compared with a linear-scan reference. States are deduplicated on the full Debug snapshot of both halves plus depth.",
     "Trusted: the 60-line linear-scan reference; 64-bit fingerprints; times outside the alphabets (NaN, infinities) are not covered.",
     "DESIGN.md 3/C13", E2)

prop("C12", True, "model_checking",
     "explicit-state BFS (stateright) over cloned real TimingPointsState x incremental legacy model; exhaustive line sequences through from_str vs batch definition",
     "Every history of timing-point lines over the alphabet up to the completed depth is fed line by line to the real parse_timing_points on a clone of the real state; after every transition the converted lists are compared with the legacy precedence model, which is itself checked against the batch definition on every enumerated sequence. Single-line field products cover parse limits, defaults and clamps.",
     "Trusted: the reference line parser and batch definition written from the statement; Debug snapshot of TimingPointsState as complete dedup key (verif hook); values outside the alphabets/menus.",
     "DESIGN.md 3/C12", E2)

prop("C20", True, "model_checking",
     "exhaustive parameter-grid enumeration against an eager reference list + explicit-state BFS over tick-buffer histories",
     "Every grid point (span count x tick ratio x length x velocity x duration x start x clean/dirty buffer) is run through the real iterator and compared event by event with an eager reference built from the statement; the buffer-history model (abandoned iterators included) is searched breadth-first and every consumed prefix compared.",
     "Trusted: the eager reference (closed forms); 1e-9 relative tolerance on times, exact cut-off where arithmetic is exact; parameters outside the menus.",
     "DESIGN.md 3/C20", E2)

prop("C16", True, "model_checking",
     "exhaustive integer-grid enumeration of control-point lists x type layouts x requested lengths x modes on the real Curve::new",
     "Every control-point list of the stated grid families (1-5 points, every type layout, several scales/origins) is computed at natural length and at every length of a boundary menu (tiny, inside, exactly natural +-1e-9, beyond, huge, exactly at vertices); total distance, exception rule, prefix/ray geometry and cumulative-length invariants are checked on every curve.",
     "Trusted: the oracle's reading of the statement (exception rule, 1e-3 x magnitude end-point tolerance); coordinates outside the grids.",
     "DESIGN.md 3/C16", E1)

prop("C17", True, "model_checking",
     "exhaustive integer-grid enumeration per segment type against exact curves evaluated in f64 (symmetric Hausdorff distance)",
     "Every three-point arc, bezier (2-6 points), Catmull (2-4 points), linear, untyped and two-segment combination of the stated grids x scales, plus densely anchored beziers and almost straight arcs near and far from the origin, is computed by the real code and compared with the exact curve; fallbacks, segment ends and joint de-duplication are checked on every shape.",
     "Trusted: f64 reference curves and the bounds derived from the tolerance constants (bezier 0.25, arc 0.4, Catmull sampling bound, +6 px in osu mode) plus f32 slack.",
     "DESIGN.md 3/C17", E1)

prop("C18", True, "model_checking",
     "explicit-state BFS (stateright) over histories of curve computations and SliderPath mutations sharing one buffer set; differential oracle vs fresh buffers",
     "All operation sequences up to the completed depth over {owned/borrowed computation of each pool entry x length, three cached getters, push/pop/overwrite, set length, clear cache, clone_from another path}, plus every ordered pair of curves copied over one another; every curve returned must be bit-identical to a computation with fresh buffers for the current inputs.",
     "Trusted: Debug snapshots as complete state keys; the pool of nine control-point lists and four lengths.",
     "DESIGN.md 3/C18", E2)

prop("C19", True, "model_checking",
     "exhaustive enumeration of the C16 curve families x progress menu (incl. every exact vertex fraction) on the real position functions",
     "For every natural and length-adjusted curve of the families (incl. non-positive requested lengths) every progress value of the menu is evaluated: end points, clamping, progress-to-distance identity, Lipschitz bound between consecutive progress values, vertex hits, index search and interpolation against a linear scan, owned vs borrowed view.",
     "Trusted: tolerance 1e-3 x control magnitude + 2e-6 x path magnitude for position equalities (DESIGN section 7).",
     "DESIGN.md 3/C19", E1)

prop("C05", True, "model_checking",
     "exhaustive enumeration of all files of <= k lines over a line-kind alphabet; trace decoder vs reference framing procedure, Beatmap vs reference driver, metamorphic insertions",
     "Every file of up to k lines over the line-kind alphabet (x terminators x final newline x encodings) is decoded by the real driver through a trace decoder that records which line reached which section parser; the trace must equal the statement's framing procedure, the Beatmap must equal a reference driver over the public parse functions, and blank/comment/unknown-bracket insertions must change nothing.",
     "Trusted: the 60-line reference framing procedure and reference text decoder; line contents limited to the alphabet.",
     "DESIGN.md 3/C05", E1)

prop("C08", True, "model_checking",
     "choice-tree exploration of all reader chunk schedules and Interrupted placements (I/O environment as scheduler) + bounded deviations on real files",
     "Every composition of every short file into chunks, with every placement of a bounded number of Interrupted answers, is run through the real decoder under a reader whose every refill is a choice point; on the bundled files (4 encodings) every single cut, interrupt placements, cut pairs on small files, chunk sizes 1..64, BufReader capacities 1..16 and five entry points are enumerated. The result must equal the single-chunk result.",
     "Trusted: the scheduled readers; finite interrupt budget; sampled line-boundary offsets on the four large files in the quick tier.",
     "DESIGN.md 3/C08", E1)

prop("C09", True, "fault_enumeration",
     "exhaustive fault-point enumeration: every byte offset x error kind x chunking on read, every output offset x fault type on write, every Interrupted placement",
     "A failing reader/writer is placed at every offset of every pooled file / encoded map; a hard fault must surface as Err of the same kind (never Ok, never a panic), transient conditions must leave the result byte-identical.",
     "Trusted: the injecting reader/writer; persistent faults only; offsets on large files restricted to head/tail and line boundaries in the quick tier.",
     "DESIGN.md 3/C09", E1)

prop("C10", True, "model_checking",
     "exhaustive enumeration: every Unicode scalar x 4 encodings, all short byte strings, all UTF-16 unit sequences over a boundary menu, every truncation; trace decoder vs reference text decoding",
     "Every Unicode scalar value is decoded as metadata content in all four encodings; every byte string up to length 2/3 is injected into a UTF-8 line; every UTF-16 code unit and every short unit sequence over a boundary menu is injected in LE and BE (also with an odd tail); every truncation of the bundled files is decoded. Routed lines and metadata values must equal the reference decoding (from_utf8_lossy per line, decode_utf16 with replacement, split on U+000A only).",
     "Trusted: Rust std's lossy decoders as the reference; the reference framing procedure shared with C05.",
     "DESIGN.md 3/C10", E1)

prop("C11", True, "model_checking",
     "exhaustive enumeration of record sequences per section against an independent table-driven interpreter, through every decoder reading the section",
     "For each of the six sections every sequence of up to k records over (key x value class) alphabets (plus unknown, indented, lower-case and colon-less lines) is decoded by every decoder that reads that section and compared field by field with a table-driven interpreter written from the statement.",
     "Trusted: the reference interpreter (key tables, conversions, limits, clamps, precedence); Rust std's number grammar; value classes limited to the menus.",
     "DESIGN.md 3/C11", E1)

prop("C14", True, "model_checking",
     "exhaustive field-wise enumeration of hit-object lines (all type x sound bytes, field deviations, all path token strings up to a length, node lists) against an independent reference parser",
     "Every generated line is fed to the real line parser on a fresh state after each of 13 context line lists (previous object none/circle/spinner/slider/hold, mixed-flag type bytes, rejected lines) and the raw object is compared with a reference parser of the legacy grammar on acceptance and on every field.",
     "Trusted: the 200-line reference parser; Rust std's number grammar; field values limited to the menus.",
     "DESIGN.md 3/C14", E1)

prop("C15", True, "model_checking",
     "exhaustive enumeration of small maps (object lines in any order x break lists x timing-line sets x modes x multipliers) with closed-form and metamorphic (time shift) oracles",
     "Every map of up to 2 (3) object lines in any file order over an 8-kind x 4-time object alphabet, 8 break lists, timing-line sets with boundary placements, 4 modes and 3 slider multipliers is decoded; order/stability, forced combos after breaks, slider velocity and duration closed forms and sample defaults from the sample point 5 ms after end/node are recomputed independently; a quarter of the maps is re-decoded under six whole-millisecond time shifts.",
     "Trusted: raw objects from the real line parser (C14) and control points from the real decoder (C12) as inputs of the reference post-processing; breaks chronological and non-overlapping; slider lookup times within 1e-6 ms of a sample point are skipped (float rounding).",
     "DESIGN.md 3/C15", E1)

prop("C06", True, "model_checking",
     "exhaustive enumeration of record sequences (valid records and corruptions) per section with a 2-safety oracle; explicit-state BFS over real HitObjectsState vs a shadow state fed only accepted lines",
     "For every sequence of up to k records per section, embedded in a context that makes residue observable, the lines rejected by the public section parser (replayed in context) are removed and the complete decoded Beatmap must be identical; the hit-object parser state is additionally searched breadth-first against a shadow state that only receives accepted lines.",
     "Trusted: the public parse_* functions' Ok/Err as the definition of 'rejected'; Debug form of Beatmap as the complete result; Debug snapshot of HitObjectsState (verif hook) as state key.",
     "DESIGN.md 3/C06", E1)

prop("C01", True, "model_checking",
     "exhaustive enumeration of bounded input families x nine decoder types (+ re-encode, second decode) in a supervised child process; default and tracing feature builds",
     "Every input of the stated finite families (all byte strings up to length 4/5 over a 21-byte alphabet, hostile field deviations per record x mode x version, every truncation in four encodings, every single-byte substitution, line/field mutations, splices, record pairs) is decoded by all nine decoder types, re-encoded and decoded again; panics are caught, aborts and non-termination are attributed to a case by a supervising parent; the same body runs against the tracing build with a formatting subscriber.",
     "Trusted: overflow checks + debug assertions in the subject build stand in for memory-safety detection in the quick tier; totality outside the families is not claimed.",
     "DESIGN.md 3/C01", E1)

prop("C07", True, "model_checking",
     "exhaustive enumeration of the C01 input families; differential comparison of every specialised decoder with the full decoder",
     "For every input of the C01 families each of the eight specialised decoders is run and every field it shares with Beatmap is compared (Debug form, NaN-safe).",
     "Trusted: the field lists of the comparison; inputs outside the families.",
     "DESIGN.md 3/C07", E1)

prop("C02", True, "model_checking",
     "exhaustive enumeration of bounded-deviation files and dense path / timing / sample products; field-by-field comparison of decode(x) with decode(encode(decode(x)))",
     "Every input of the families (full-featured baseline per mode/version with one or two records replaced/inserted/deleted, all slider path token strings up to a length x length classes, chronological timing triples x object pairs, hit-sound x extras x node counts, bundled files) is decoded, encoded and decoded again; every field the statement lists is compared, excluded fields are excluded, non-chronological inputs and consecutive explicit Catmull segments are counted and skipped.",
     "Trusted: the comparison's field list; 8-ulp tolerance on slider-velocity-derived values; two recorded findings (format limitations) classified narrowly.",
     "DESIGN.md 3/C02", E1)

prop("C04", True, "model_checking",
     "exhaustive enumeration of the C02 families plus hostile/non-chronological families; independent line walker over every encoding using the public section parsers as acceptance oracle",
     "For every decoded map the encoder output is walked: version line, the eight headers once in order, every record accepted by its section parser on a running state, no record droppable by framing, walked state equals decoded text, counts and kinds/times of hit objects read back.",
     "Trusted: the public parse_* functions as acceptance oracle; two recorded findings (values beyond the decoder's own limits).",
     "DESIGN.md 3/C04", E1)

prop("C03", True, "model_checking",
     "exhaustive enumeration of single, paired (and tripled) field edits over a map pool; encode -> decode -> field-by-field comparison",
     "Every edit of the alphabet (text fields x 25 hostile strings, file names, boundary numbers, flags, mode, countdown, bookmarks, colours, breaks) and every pair of edits on distinct fields is applied to every map of the pool; the edited map is encoded, decoded and compared with C02's field list.",
     "Trusted: only representable values are in the menus; data derived from an edited field (combo flags from breaks, velocity from the slider multiplier, mode-dependent data) is excluded for that edit.",
     "DESIGN.md 3/C03", E1)

NOT_BUILT_REASON = "check not built yet in this session (planned, see DESIGN.md section 3); not claimed until it exists"

def main():
    props = [json.loads(l) for l in open(os.path.join(ROOT, "properties.jsonl"))]
    checks, na = [], []
    for p in props:
        pid = p["id"]
        e = P.get(pid)
        if e and e["built"]:
            checks.append({
                "property_id": pid,
                "quick_cmd": f"./check {pid} quick",
                "thorough_cmd": f"./check {pid} thorough",
                "evidence_file": f"/verif/evidence/{pid}.json",
                "replay_cmd_template": f"./check {pid} --replay {{path}}",
                "engine": e["engine"],
                "level_claimed": {"category": e["cat"], "text": e["text"], "design_ref": e["ref"]},
                "level_note": e["note"],
                "technique": e["technique"],
            })
        else:
            na.append({"property_id": pid, "reason": (e or {}).get("na_reason", NOT_BUILT_REASON)})
    try:
        hook_commits = subprocess.check_output(
            ["git", "-C", "/repo", "log", "--format=%H", "--grep=^verif hooks"], text=True).split()
    except Exception:
        hook_commits = []
    m = {
        "version": 1,
        "setup_cmd": "./check --build",
        "hooks": {
            "guard": "--cfg rosu_map_verif",
            "enable": "rustflags = [\"--cfg\", \"rosu_map_verif\"] in /verif/mc/.cargo/config.toml (the driver ./check builds from /verif/mc and clears inherited RUSTFLAGS)",
            "baseline_off_cmd": "cd /repo && cargo test --workspace --no-fail-fast --offline",
            "source_commits": hook_commits,
            "add_only": True,
        },
        "engines": [
            {"name": "E1", "path": "/verif/mc/rmc/src/engine/tree.rs", "kind_free_text": "stateless choice-tree explorer with deviation bounds + exhaustive product enumeration, real code executed on every vector",
             "serves_properties": sorted(k for k, v in P.items() if v["built"] and v["engine"] == E1)},
            {"name": "E2", "path": "/verif/mc/rmc/src/engine/e2.rs", "kind_free_text": "explicit-state BFS (stateright 0.31) over (real implementation state x reference model)",
             "serves_properties": sorted(k for k, v in P.items() if v["built"] and v["engine"] == E2)},
        ],
        "checks": checks,
        "not_applicable": na,
        "notes": "All checks are bounded exhaustive exploration of the real code (no sampling). ./check exits 3 on machinery errors. Known findings: /verif/known_findings.json.",
    }
    json.dump(m, open(os.path.join(ROOT, "MANIFEST.json"), "w"), indent=1)
    print(f"MANIFEST.json: {len(checks)} checks, {len(na)} not_applicable")

if __name__ == "__main__":
    main()
