//! C16 — a slider's curve honours the requested pixel length.
//! E1: exhaustive integer-grid families of control-point lists x every type
//! layout x requested-length menu x modes, real `Curve::new` on every one.

use rosu_map::section::{
    general::GameMode,
    hit_objects::{Curve, CurveBuffers, PathControlPoint, SplineType},
};
use serde_json::{json, Value};

use super::curves::{layouts, mode_from, points_from_json, points_json, same_points, same_pos, Family, MODES};
use crate::engine::{finish, guarded, par_range, run_witnesses, Acc, Run, Summary, Tier, Violation};

pub fn families(tier: Tier) -> Vec<Family> {
    let t = tier.thorough();
    let mut v = Vec::new();
    let g3 = if t { 8 } else { 6 };
    for (scale, origin) in [(1.0f32, (0.0f32, 0.0f32)), (7.5, (0.0, 0.0))] {
        v.push(Family { n: 1, g: 1, scale, origin, layouts: layouts(1) });
        v.push(Family { n: 2, g: g3, scale, origin, layouts: layouts(2) });
    }
    v.push(Family { n: 3, g: g3, scale: 1.0, origin: (0.0, 0.0), layouts: layouts(3) });
    v.push(Family { n: 3, g: if t { 5 } else { 4 }, scale: 37.5, origin: (0.0, 0.0), layouts: layouts(3) });
    v.push(Family { n: 3, g: 3, scale: 1.0, origin: (256.0, -192.0), layouts: layouts(3) });
    v.push(Family { n: 3, g: if t { 4 } else { 3 }, scale: 4096.0, origin: (0.0, 0.0), layouts: layouts(3) });
    v.push(Family { n: 4, g: if t { 2 } else { 1 }, scale: 1.0, origin: (0.0, 0.0), layouts: layouts(4) });
    v.push(Family { n: 4, g: 1, scale: 300.0, origin: (0.0, 0.0), layouts: layouts(4) });
    if t {
        v.push(Family { n: 3, g: 3, scale: 0.3, origin: (0.1, 0.7), layouts: layouts(3) });
        v.push(Family { n: 5, g: 1, scale: 11.0, origin: (0.0, 0.0), layouts: layouts(5) });
    }
    v
}

fn has_catmull(pts: &[PathControlPoint]) -> bool {
    pts.iter()
        .any(|p| p.path_type.is_some_and(|t| t.kind == SplineType::Catmull))
}

fn finite(c: &Curve) -> bool {
    c.path().iter().all(|p| p.x.is_finite() && p.y.is_finite()) && c.lengths().iter().all(|l| l.is_finite())
}

fn case_json(mode: GameMode, pts: &[PathControlPoint], len: Option<f64>) -> Value {
    json!({"mode": mode as i32, "points": points_json(pts), "len": len})
}

/// The length menu for a natural distance `nd`.
pub fn len_menu(nd: f64) -> Vec<f64> {
    let mut v = vec![1e-3, 0.3, nd * 0.5, nd * 0.37, nd, nd + 1e-9, nd * 1.5 + 1.0, 1e5];
    if nd > 2.0 {
        v.push(nd - 1e-9);
        v.push(nd - 1.0);
    }
    v.retain(|l| *l > 0.0 && l.is_finite());
    v
}

/// All checks for one (mode, points); pushes violations.
pub fn check_shape(mode: GameMode, pts: &[PathControlPoint], bufs: &mut CurveBuffers, acc: &mut Acc) {
    let _g = crate::engine::watch::guard("points", |s| s.push_str(&format!("{mode:?} {}", points_json(pts))));
    let scale = 1.0 + super::curves::max_abs(pts);
    let nat = Curve::new(mode, pts, None, bufs);
    acc.evals += 1;
    acc.transitions += 1;
    let viol = |class: &str, msg: String, len: Option<f64>, acc: &mut Acc| {
        acc.violation(Violation::new(
            class,
            format!("{mode:?} {} len={len:?}: {msg}", points_json(pts)),
            case_json(mode, pts, len),
        ));
    };
    if !finite(&nat) {
        viol("natural-non-finite", "natural curve has non-finite values".into(), None, acc);
        return;
    }
    let nd = nat.dist();
    let np = nat.path();
    // straight polylines: the natural path is the list of control points itself (repeated points included - the
    // "ends in two identical points" exception is decided on them)
    if pts.iter().all(|p| p.path_type.is_none_or(|t| t.kind == SplineType::Linear)) && pts.len() >= 2 {
        let want: Vec<rosu_map::util::Pos> = pts.iter().map(|p| p.pos).collect();
        if !same_points(np, &want) {
            viol("linear-natural-path", format!("natural path {np:?} is not the control polygon"), None, acc);
            return;
        }
    }
    if nat.lengths().first() != Some(&0.0) {
        viol("lengths-start", format!("lengths[0] = {:?}", nat.lengths().first()), None, acc);
    }
    if nat.lengths().windows(2).any(|w| w[1] < w[0] - 1e-5) {
        viol("lengths-decrease", format!("{:?}", nat.lengths()), None, acc);
    }
    // natural distance == polyline length (+ simplification surplus in osu mode)
    let poly: f64 = np.windows(2).map(|w| f64::from((w[1] - w[0]).length())).sum();
    let osu_catmull = mode == GameMode::Osu && has_catmull(pts);
    if !osu_catmull {
        if (poly - nd).abs() > 1e-6 * (1.0 + nd) {
            viol("natural-dist", format!("dist {nd} but polyline length {poly}"), None, acc);
        }
    } else {
        // simplification leaves the total length unchanged: compare with the
        // unsimplified (non-osu) curve of the same points
        let other = Curve::new(GameMode::Taiko, pts, None, bufs);
        if (other.dist() - nd).abs() > 1e-3 * (1.0 + nd) {
            viol(
                "catmull-simplification-length",
                format!("osu dist {nd} vs unsimplified {}", other.dist()),
                None,
                acc,
            );
        }
    }
    let last_two_equal = np.len() >= 2 && same_pos(np[np.len() - 1], np[np.len() - 2]);
    // boundary rule: also cut exactly at vertices (all of them on short paths,
    // otherwise the first few and those of repeated vertices)
    let mut menu = len_menu(nd);
    let nl = nat.lengths();
    let mut extra = 0;
    for i in 1..np.len().min(nl.len()) {
        let repeated = same_pos(np[i], np[i - 1]) || (i + 1 < np.len() && same_pos(np[i], np[i + 1]));
        if nl[i] > 0.0 && (np.len() <= 12 || i <= 3 || (repeated && extra < 8)) {
            menu.push(nl[i]);
            extra += 1;
        }
    }
    for l in menu {
        let c = Curve::new(mode, pts, Some(l), bufs);
        acc.evals += 1;
        acc.transitions += 1;
        let exc = np.len() <= 1 || (last_two_equal && nd < l);
        if !finite(&c) {
            // narrow classifier of the recorded finding: osu-mode Catmull whose
            // simplified path starts with two equal points, cut inside the
            // seeded (surplus) first length
            let degenerate_first = np.len() >= 2 && same_pos(np[0], np[1]) && nat.lengths().get(1).is_some_and(|l1| l <= *l1);
            let class = if osu_catmull && degenerate_first {
                "nan-endpoint-osu-catmull-degenerate-first-segment"
            } else {
                "adjusted-non-finite"
            };
            viol(class, format!("adjusted curve has non-finite values; path {:?}", c.path()), Some(l), acc);
            continue;
        }
        let d = c.dist();
        if exc {
            if d != nd {
                viol("exception-dist", format!("exception case must keep natural length {nd}, got {d}"), Some(l), acc);
            }
        } else if (nd - l).abs() < f64::EPSILON {
            if (d - l).abs() >= f64::EPSILON {
                viol("dist-not-requested", format!("dist {d}, requested {l} (natural {nd})"), Some(l), acc);
            }
        } else if d != l {
            viol("dist-not-requested", format!("dist {d}, requested {l} (natural {nd})"), Some(l), acc);
        }
        if c.lengths().first() != Some(&0.0) {
            viol("lengths-start", format!("lengths[0] = {:?}", c.lengths().first()), Some(l), acc);
        }
        if c.lengths().windows(2).any(|w| w[1] < w[0] - 1e-5) {
            viol("lengths-decrease", format!("{:?}", c.lengths()), Some(l), acc);
        }
        // geometry: prefix of the natural curve, last point on the ray of its segment
        let cp = c.path();
        let adjusted = !exc && (nd - l).abs() >= f64::EPSILON;
        if adjusted && cp.len() >= 2 {
            let m = cp.len();
            if m > np.len() || !same_points(&cp[..m - 1], &np[..m - 1]) {
                viol("prefix", format!("adjusted path is not a prefix of the natural path: {cp:?} vs {np:?}"), Some(l), acc);
                continue;
            }
            // "the natural curve cut at L": the cumulative lengths before the cut are the natural ones
            if c.lengths().len() == m && nl.len() >= m - 1 && c.lengths()[..m - 1].iter().map(|x| x.to_bits()).ne(nl[..m - 1].iter().map(|x| x.to_bits())) {
                viol("lengths-before-cut", format!("cumulative lengths before the cut {:?} differ from the natural curve's {:?}", &c.lengths()[..m - 1], &nl[..m - 1]), Some(l), acc);
                continue;
            }
            let a = np[m - 2];
            let b = np[m - 1];
            let seg = b - a;
            let seg_len = f64::from(seg.length());
            let base = c.lengths()[m - 2];
            if seg_len > 0.0 && c.lengths().len() == m {
                let want_x = f64::from(a.x) + f64::from(seg.x) / seg_len * (l - base);
                let want_y = f64::from(a.y) + f64::from(seg.y) / seg_len * (l - base);
                let got = cp[m - 1];
                let err = ((f64::from(got.x) - want_x).powi(2) + (f64::from(got.y) - want_y).powi(2)).sqrt();
                let tol = 1e-3 * scale + 1e-6 * (l - base).abs();
                if err > tol {
                    viol("end-point", format!("end point {got:?}, expected ({want_x}, {want_y}) on the last segment's ray"), Some(l), acc);
                }
                // a cut must fall into the segment, an extension must extend the LAST segment
                if l > nd && m != np.len() {
                    viol("extension-segment", format!("extension did not keep all {} natural points", np.len()), Some(l), acc);
                }
            }
        }
        let h = (mode as u8, cp.len(), d.to_bits(), cp.last().map(|p| (p.x.to_bits(), p.y.to_bits())));
        if adjusted {
            acc.nontrivial(&h);
        }
    }
}

pub fn replay(case: &Value) -> Vec<Violation> {
    let mode = mode_from(case["mode"].as_i64().unwrap_or(0));
    let pts = points_from_json(&case["points"]);
    let mut acc = Acc::new();
    check_shape(mode, &pts, &mut CurveBuffers::default(), &mut acc);
    acc.viols.into_values().flatten().collect()
}

pub fn run(tier: Tier) -> i32 {
    let run = Run::new("C16", tier, "model_checking");
    let mut acc = Acc::new();
    run_witnesses("C16", &mut acc, &replay);
    let fams = families(tier);
    let modes: Vec<GameMode> = if tier.thorough() { MODES.to_vec() } else { vec![GameMode::Osu, GameMode::Mania] };
    let mut bounds = Vec::new();
    for fam in &fams {
        let total = fam.total() * modes.len() as u64;
        let a = par_range(total, |idx, acc| {
            let mode = modes[(idx % modes.len() as u64) as usize];
            let pts = fam.get(idx / modes.len() as u64);
            acc.states += 1;
            let mut bufs = CurveBuffers::default();
            if let Err(p) = guarded(|| check_shape(mode, &pts, &mut bufs, acc)) {
                acc.violation(Violation::new("panic", format!("{mode:?} {}: {p}", points_json(&pts)), case_json(mode, &pts, None)));
            }
            if idx % 400_009 == 0 {
                acc.sample(|| case_json(mode, &pts, None));
            }
        });
        bounds.push(json!({"points": fam.n, "grid": fam.g, "scale": fam.scale, "origin": [fam.origin.0, fam.origin.1],
            "layouts": fam.layouts.len(), "shapes": fam.total(), "modes": modes.len()}));
        acc = acc.merge(a);
    }
    // almost straight three-point perfect curves (fewest arc sub-points)
    {
        let mut shapes = super::curves::near_collinear_arcs();
        shapes.extend(super::curves::far_almost_collinear_arcs());
        shapes.extend(super::curves::adjacent_float_ends());
        let total = shapes.len() as u64 * modes.len() as u64;
        let a = par_range(total, |idx, acc| {
            let mode = modes[(idx % modes.len() as u64) as usize];
            let pts = &shapes[(idx / modes.len() as u64) as usize];
            acc.states += 1;
            let mut bufs = CurveBuffers::default();
            if let Err(p) = guarded(|| check_shape(mode, pts, &mut bufs, acc)) {
                acc.violation(Violation::new("panic", format!("{mode:?} {}: {p}", points_json(pts)), case_json(mode, pts, None)));
            }
        });
        bounds.push(json!({"extra_shapes_almost_straight_arcs_near_and_far_and_paths_ending_in_neighbouring_floats": shapes.len(), "modes": modes.len()}));
        acc = acc.merge(a);
    }
    let summary = Summary {
        rule: "every control-point list of each family (first point fixed, the others on an integer grid, every type layout) \
               x modes: natural curve and the requested lengths {1e-3, 0.3, 0.37n, 0.5n, n-1, n-1e-9, n, n+1e-9, 1.5n+1, 1e5} \
               computed by the real Curve::new; dist == L exactly unless the exception applies, prefix/ray geometry, lengths \
               start at 0 / non-decreasing / finite, natural dist == polyline length, osu Catmull total == unsimplified total. \
               One evaluation = one curve; states = shapes; distinct_nontrivial = distinct (mode, adjusted path length, dist, end point) \
               among length-adjusted curves"
            .into(),
        bounds: json!({"families": bounds}),
        exhaustive: true,
        caps_hit: vec![],
        assumptions: vec![
            "coordinates restricted to the listed grids/scales; NaN/inf and L <= 0 are outside the quantifier".into(),
            "end-point tolerance 1e-3 x coordinate magnitude (f32 arithmetic in the subject)".into(),
        ],
    };
    finish(&run, acc, summary)
}
