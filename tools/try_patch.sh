#!/usr/bin/env bash
# usage: tools/try_patch.sh <patch.diff> <Cxx> [Cyy ...]   (applies to /repo, runs quick checks, reverts)
set -u
patch="$(realpath "$1")"; shift
cd /repo || exit 3
if ! git diff --quiet; then echo "/repo has uncommitted changes" >&2; exit 3; fi
git apply "$patch" || { echo "patch does not apply" >&2; exit 3; }
trap 'git -C /repo checkout -- . ' EXIT
for id in "$@"; do
  tier=quick
  case "$id" in *:t) tier=thorough; id="${id%:t}";; esac
  out=$(/verif/check "$id" $tier 2>&1); code=$?
  echo "== $id $tier exit=$code"
  echo "$out" | grep -E "VIOLATION|KNOWN-FINDING|MACHINERY|class=" | head -6
done
