//! C12 — timing-point lines resolve by the legacy precedence rules.
//!
//! * E2: product of the real `TimingPointsState` (cloned through the verif
//!   hook) and an incremental reference; one action = one line fed to the real
//!   `TimingPoints::parse_timing_points`.
//! * E1: every line sequence up to a bound decoded end-to-end with
//!   `from_str::<TimingPoints>` and compared with the *batch* definition; the
//!   same enumeration validates the incremental reference against the batch
//!   definition.
//! * E1: single-line field products for parse limits, defaults and clamps.

use rosu_map::{
    section::{
        general::GameMode,
        hit_objects::hit_samples::SampleBank,
        timing_points::{
            DifficultyPoint, EffectPoint, SamplePoint, TimeSignature, TimingPoint, TimingPoints,
            TimingPointsState,
        },
    },
    DecodeBeatmap, DecodeState,
};
use serde_json::{json, Value};

use super::c13::{Op, RefCp};
use crate::engine::{
    digits,
    e2::{self, Product, StepOut},
    finish, guarded, par_range, product, run_witnesses, Acc, Run, Summary, Tier, Violation,
};

// ---------------------------------------------------------------------------
// reference: line parser (written from the format rules, not from the code)

#[derive(Clone, Debug, PartialEq)]
pub struct Parsed {
    pub time: f64,
    pub timing_change: bool,
    pub timing: Option<TimingPoint>,
    pub diff: DifficultyPoint,
    pub effect: EffectPoint,
    pub sample: SamplePoint,
}

#[derive(Clone, Copy, Debug, PartialEq)]
pub struct Env {
    pub mode: GameMode,
    pub default_bank: SampleBank,
    pub default_volume: i32,
}

const LIMIT: f64 = 2147483647.0;

fn ref_i32(s: &str) -> Option<i32> {
    let n: i32 = s.trim().parse().ok()?;
    if n == i32::MIN {
        None
    } else {
        Some(n)
    }
}

fn strip_comment(l: &str) -> &str {
    match l.find("//") {
        Some(i) => l[..i].trim_end(),
        None => l.trim_end(),
    }
}

pub fn ref_parse(line: &str, env: Env) -> Option<Parsed> {
    let f: Vec<&str> = strip_comment(line).split(',').collect();
    if f.len() < 2 {
        return None;
    }
    let time: f64 = f[0].trim().parse().ok()?;
    if time.is_nan() || time < -LIMIT || time > LIMIT {
        return None;
    }
    let beat_len: f64 = f[1].trim().parse().ok()?;
    if beat_len < -LIMIT || beat_len > LIMIT {
        return None;
    }
    let speed = if beat_len < 0.0 { 100.0 / -beat_len } else { 1.0 };
    let mut sig = 4u32;
    if let Some(s) = f.get(2) {
        if !s.starts_with('0') {
            let n = ref_i32(s)?;
            if n <= 0 {
                return None;
            }
            sig = n as u32;
        }
    }
    let mut bank = match f.get(3) {
        Some(s) => match ref_i32(s)? {
            0 => SampleBank::None,
            1 => SampleBank::Normal,
            2 => SampleBank::Soft,
            3 => SampleBank::Drum,
            _ => env.default_bank,
        },
        None => env.default_bank,
    };
    let custom = match f.get(4) {
        Some(s) => ref_i32(s)?,
        None => 0,
    };
    let volume = match f.get(5) {
        Some(s) => ref_i32(s)?,
        None => env.default_volume,
    };
    let timing_change = f.get(6).is_none_or(|s| s.starts_with('1'));
    let (mut kiai, mut omit) = (false, false);
    if let Some(s) = f.get(7) {
        let flags: i32 = s.trim().parse().ok()?;
        kiai = flags & 1 != 0;
        omit = flags & 8 != 0;
    }
    if bank == SampleBank::None {
        bank = SampleBank::Normal;
    }
    if timing_change && beat_len.is_nan() {
        return None;
    }
    let time_signature = TimeSignature::new(sig as i32).ok()?;
    let timing = timing_change.then(|| TimingPoint {
        time,
        beat_len: if beat_len < 6.0 {
            6.0
        } else if beat_len > 60000.0 {
            60000.0
        } else {
            beat_len
        },
        omit_first_bar_line: omit,
        time_signature,
    });
    let clamp = |v: f64, lo: f64, hi: f64| if v < lo { lo } else if v > hi { hi } else { v };
    let diff = DifficultyPoint {
        time,
        slider_velocity: clamp(speed, 0.1, 10.0),
        generate_ticks: !beat_len.is_nan(),
    };
    let scroll = if matches!(env.mode, GameMode::Taiko | GameMode::Mania) {
        clamp(speed, 0.01, 10.0)
    } else {
        1.0
    };
    let effect = EffectPoint {
        time,
        kiai,
        scroll_speed: scroll,
    };
    let sample = SamplePoint {
        time,
        sample_bank: bank,
        sample_volume: volume.clamp(0, 100),
        custom_sample_bank: custom,
    };
    Some(Parsed {
        time,
        timing_change,
        timing,
        diff,
        effect,
        sample,
    })
}

// ---------------------------------------------------------------------------
// reference: batch definition and incremental model

/// Winners of one same-time group: per kind the last inherited line if any,
/// otherwise the first timing-change line.
#[derive(Clone, Debug, Default, PartialEq)]
pub struct Winners {
    pub timing: Option<TimingPoint>,
    pub diff: Option<DifficultyPoint>,
    pub effect: Option<EffectPoint>,
    pub sample: Option<SamplePoint>,
}

fn winners(group: &[Parsed]) -> Winners {
    let last_inh = group.iter().rev().find(|p| !p.timing_change);
    let first_tc = group.iter().find(|p| p.timing_change);
    let pick = last_inh.or(first_tc);
    Winners {
        timing: first_tc.and_then(|p| p.timing.clone()),
        diff: pick.map(|p| p.diff.clone()),
        effect: pick.map(|p| p.effect.clone()),
        sample: pick.map(|p| p.sample.clone()),
    }
}

fn fold(lists: &mut RefCp, w: Winners) {
    if let Some(p) = w.timing {
        lists.add(&Op::T(p));
    }
    if let Some(p) = w.diff {
        lists.add(&Op::D(p));
    }
    if let Some(p) = w.effect {
        lists.add(&Op::E(p));
    }
    if let Some(p) = w.sample {
        lists.add(&Op::S(p));
    }
}

/// Batch definition: maximal runs of (EPSILON-)equal times form groups.
pub fn batch(accepted: &[Parsed]) -> RefCp {
    let mut lists = RefCp::default();
    let mut i = 0;
    while i < accepted.len() {
        let mut j = i + 1;
        while j < accepted.len() && (accepted[j].time - accepted[j - 1].time).abs() < f64::EPSILON {
            j += 1;
        }
        fold(&mut lists, winners(&accepted[i..j]));
        i = j;
    }
    lists
}

/// Incremental reference used in the E2 product.
#[derive(Clone, Debug, Default, PartialEq)]
pub struct RefTp {
    pub lists: RefCp,
    pub group: Vec<Parsed>,
}

impl RefTp {
    pub fn line(&mut self, p: Parsed) {
        if let Some(last) = self.group.last() {
            if (p.time - last.time).abs() >= f64::EPSILON {
                self.flush();
            }
        }
        self.group.push(p);
    }
    fn flush(&mut self) {
        let g = std::mem::take(&mut self.group);
        if !g.is_empty() {
            fold(&mut self.lists, winners(&g));
        }
    }
    pub fn result(&self) -> RefCp {
        let mut c = self.clone();
        c.flush();
        c.lists
    }
    /// canonical form: lists + winners + time of the last line (futures depend
    /// only on these, see DESIGN 3/C12)
    pub fn key(&self) -> String {
        format!(
            "{:?}|{:?}|{:?}",
            self.lists,
            winners(&self.group),
            self.group.last().map(|p| p.time)
        )
    }
}

// ---------------------------------------------------------------------------
// oracle shared by E1/E2/replay

pub fn env_lines(env: Env) -> Vec<String> {
    let mut v = vec![format!("Mode: {}", env.mode as i32)];
    // "no SampleSet record" and an explicit "SampleSet: None" are the same default; the latter is written in two modes
    if env.default_bank != SampleBank::None || matches!(env.mode, GameMode::Taiko | GameMode::Catch) {
        v.push(format!("SampleSet: {}", match env.default_bank {
            SampleBank::Normal => "Normal",
            SampleBank::Soft => "Soft",
            SampleBank::Drum => "Drum",
            SampleBank::None => "None",
        }));
    }
    if env.default_volume != 100 {
        v.push(format!("SampleVolume: {}", env.default_volume));
    }
    v
}

pub fn fresh_state(env: Env) -> TimingPointsState {
    let mut st = TimingPointsState::create(14);
    for l in env_lines(env) {
        let _ = TimingPoints::parse_general(&mut st, &l);
    }
    st
}

fn strictly(ts: impl Iterator<Item = f64>) -> bool {
    let v: Vec<f64> = ts.collect();
    v.windows(2).all(|w| w[0] < w[1])
}

/// Compares the real result lists with the reference and checks the value
/// invariants of the statement.
pub fn check_lists(
    real: &rosu_map::section::timing_points::ControlPoints,
    want: &RefCp,
    env: Env,
) -> Option<(String, String)> {
    if super::gen::lists_differ(&real.timing_points, &want.t)
        || super::gen::lists_differ(&real.difficulty_points, &want.d)
        || super::gen::lists_differ(&real.effect_points, &want.e)
        || super::gen::lists_differ(&real.sample_points, &want.s)
    {
        let which = if super::gen::lists_differ(&real.timing_points, &want.t) {
            "timing"
        } else if super::gen::lists_differ(&real.difficulty_points, &want.d) {
            "difficulty"
        } else if super::gen::lists_differ(&real.effect_points, &want.e) {
            "effect"
        } else {
            "sample"
        };
        return Some((
            format!("lists-differ-{which}"),
            format!("{which} list differs from the legacy model: real={real:?} want={want:?}"),
        ));
    }
    if !strictly(real.timing_points.iter().map(|p| p.time))
        || !strictly(real.difficulty_points.iter().map(|p| p.time))
        || !strictly(real.effect_points.iter().map(|p| p.time))
        || !strictly(real.sample_points.iter().map(|p| p.time))
    {
        return Some(("not-strictly-increasing".into(), format!("{real:?}")));
    }
    for p in &real.timing_points {
        if !(p.beat_len >= 6.0 && p.beat_len <= 60000.0) {
            return Some(("clamp-beat-len".into(), format!("{p:?}")));
        }
    }
    for p in &real.difficulty_points {
        if !(p.slider_velocity >= 0.1 && p.slider_velocity <= 10.0) {
            return Some(("clamp-slider-velocity".into(), format!("{p:?}")));
        }
    }
    let scrolling = matches!(env.mode, GameMode::Taiko | GameMode::Mania);
    for p in &real.effect_points {
        if !(p.scroll_speed >= 0.01 && p.scroll_speed <= 10.0) || (!scrolling && p.scroll_speed != 1.0) {
            return Some(("clamp-scroll-speed".into(), format!("{p:?} mode={:?}", env.mode)));
        }
    }
    for p in &real.sample_points {
        if !(0..=100).contains(&p.sample_volume) {
            return Some(("clamp-volume".into(), format!("{p:?}")));
        }
    }
    None
}

/// Runs a line history on the real incremental parser and the batch
/// definition; returns the first disagreement.
pub fn check_history(env: Env, lines: &[&str]) -> Option<(String, String)> {
    let _g = crate::engine::watch::guard("lines", |s| s.push_str(&format!("{env:?} {lines:?}")));
    let mut st = fresh_state(env);
    let mut accepted = Vec::new();
    let mut inc = RefTp::default();
    for (i, l) in lines.iter().enumerate() {
        let want = ref_parse(l, env);
        let got = TimingPoints::parse_timing_points(&mut st, l);
        if got.is_ok() != want.is_some() {
            return Some((
                "accept-reject".into(),
                format!("line {i} {l:?}: real {:?}, reference accepts={}", got.map_err(|e| e.to_string()), want.is_some()),
            ));
        }
        if let Some(p) = want {
            accepted.push(p.clone());
            inc.line(p);
        }
    }
    let want = batch(&accepted);
    if inc.result() != want {
        crate::engine::machinery_error(&format!(
            "incremental reference disagrees with the batch definition on {lines:?} ({env:?})"
        ));
    }
    let real: TimingPoints = st.into();
    check_lists(&real.control_points, &want, env)
}

// ---------------------------------------------------------------------------
// alphabets

const TIMES: [&str; 6] = ["0", "0.00000000000000001", "10", "20", "-5", "-0"];

fn kinds(tier: Tier, deep: bool) -> Vec<&'static str> {
    let mut k = vec![
        "500,4,1,0,100,1,0",    // T500
        "-100,4,1,0,100,0,0",   // I-100 (sv 1: redundant by default)
        "-50,4,1,0,100,0,1",    // I-50 + kiai
        "300,4,2,0,100,1,1",    // T300 + kiai + bank 2
        "NaN,4,1,0,100,0,0",    // Inan
        "500,4,1,0,100,1,8",    // T500 + omit
        "-50,4,1,0,50,0,0",     // I-50 + vol 50
        "NaN,4,1,0,100,1,0",    // Tnan (rejected)
    ];
    if !deep {
        // "-100.5": velocity / scroll speed 0.995..., within 0.01 of the default and of I-100 but not redundant
        k.extend(["-100,4,1,0,100,1,0", "500,4,1,0,100,0,0", "400", "-100.5,4,1,0,100,0,0"]);
    }
    if tier.thorough() && !deep {
        k.extend(["-1000,4,3,2,100,0,0", "-5,3,1,0,101,0,9"]);
    }
    k
}

pub fn line_alphabet(tier: Tier, deep: bool) -> Vec<String> {
    let times: &[&str] = if deep { &TIMES[..4] } else { &TIMES };
    let mut v = Vec::new();
    for t in times {
        for k in kinds(tier, deep) {
            v.push(format!("{t},{k}"));
        }
    }
    v
}

pub fn envs() -> Vec<Env> {
    let mut v = Vec::new();
    for mode in [GameMode::Osu, GameMode::Taiko, GameMode::Catch, GameMode::Mania] {
        v.push(Env {
            mode,
            default_bank: SampleBank::None,
            default_volume: 100,
        });
        v.push(Env {
            mode,
            default_bank: SampleBank::Soft,
            default_volume: 40,
        });
    }
    v
}

// ---------------------------------------------------------------------------
// E2 product

#[derive(Clone)]
pub struct S {
    env: Env,
    real: Sendable,
    model: RefTp,
}

#[derive(Clone)]
struct Sendable(TimingPointsState);
// TimingPointsState holds only owned data.
unsafe impl Send for Sendable {}
unsafe impl Sync for Sendable {}

#[derive(Clone)]
struct Model {
    lines: std::sync::Arc<Vec<String>>,
    envs: Vec<Env>,
}

impl Product for Model {
    type S = S;
    type A = u16;

    fn name(&self) -> &'static str {
        "c12-timing-lines"
    }
    fn init(&self) -> Vec<S> {
        self.envs
            .iter()
            .map(|&env| S {
                env,
                real: Sendable(fresh_state(env)),
                model: RefTp::default(),
            })
            .collect()
    }
    fn actions(&self, _: &S, out: &mut Vec<u16>) {
        out.extend(0..self.lines.len() as u16);
    }
    fn step(&self, s: &S, a: &u16) -> StepOut<S> {
        let line = &self.lines[*a as usize];
        let mut next = s.clone();
        let want = ref_parse(line, s.env);
        let got = guarded(|| {
            let mut st = s.real.0.clone();
            let r = TimingPoints::parse_timing_points(&mut st, line).is_ok();
            let out: TimingPoints = st.clone().into();
            (st, r, out)
        });
        let (st, ok, out) = match got {
            Ok(x) => x,
            Err(p) => {
                return StepOut {
                    next,
                    bad: Some(("panic".into(), p)),
                }
            }
        };
        next.real = Sendable(st);
        if ok != want.is_some() {
            return StepOut {
                next,
                bad: Some((
                    "accept-reject".into(),
                    format!("line {line:?}: real accepts={ok}, reference accepts={}", want.is_some()),
                )),
            };
        }
        if let Some(p) = want {
            next.model.line(p);
        }
        let bad = check_lists(&out.control_points, &next.model.result(), s.env);
        StepOut { next, bad }
    }
    fn key(&self, s: &S) -> String {
        format!("{:?}|{}", s.real.0, s.model.key())
    }
    fn action_json(&self, a: &u16) -> Value {
        json!(self.lines[*a as usize])
    }
}

fn env_json(env: Env) -> Value {
    json!({"mode": env.mode as i32, "bank": env.default_bank as i32, "volume": env.default_volume})
}

fn env_from(v: &Value) -> Env {
    Env {
        mode: GameMode::from(v["mode"].as_i64().unwrap_or(0) as u8),
        default_bank: SampleBank::try_from(v["bank"].as_i64().unwrap_or(0) as i32).unwrap(),
        default_volume: v["volume"].as_i64().unwrap_or(100) as i32,
    }
}

pub fn replay(case: &Value) -> Vec<Violation> {
    let (env, lines): (Env, Vec<String>) = if case["kind"] == "history" {
        let envs = envs();
        let env = envs[case["init"].as_u64().unwrap_or(0) as usize % envs.len()];
        (
            env,
            case["actions"]
                .as_array()
                .unwrap()
                .iter()
                .map(|a| a.as_str().unwrap().to_string())
                .collect(),
        )
    } else {
        (
            env_from(&case["env"]),
            case["lines"]
                .as_array()
                .unwrap()
                .iter()
                .map(|a| a.as_str().unwrap().to_string())
                .collect(),
        )
    };
    let refs: Vec<&str> = lines.iter().map(String::as_str).collect();
    // every prefix (the E2 oracle looks at every intermediate state)
    for n in 1..=refs.len() {
        if let Some((class, summary)) = check_history(env, &refs[..n]) {
            return vec![Violation::new(
                class,
                format!("{env:?} lines {:?}: {summary}", &refs[..n]),
                json!({"kind": "lines", "env": env_json(env), "lines": &refs[..n]}),
            )];
        }
    }
    // end-to-end through from_str
    if let Some(v) = end_to_end(env, &refs) {
        return vec![v];
    }
    Vec::new()
}

fn end_to_end(env: Env, lines: &[&str]) -> Option<Violation> {
    let mut text = String::from("osu file format v14\n\n[General]\n");
    for l in env_lines(env) {
        text.push_str(&l);
        text.push('\n');
    }
    text.push_str("\n[TimingPoints]\n");
    for l in lines {
        text.push_str(l);
        text.push('\n');
    }
    // a second [General] block after the timing points changes the final mode, not how the lines above were read
    if lines.len() % 2 == 1 {
        let later = match env.mode {
            GameMode::Osu => 3,
            GameMode::Taiko => 0,
            GameMode::Catch => 1,
            GameMode::Mania => 2,
        };
        text.push_str(&format!("\n[General]\nMode: {later}\n"));
    }
    let accepted: Vec<Parsed> = lines.iter().filter_map(|l| ref_parse(l, env)).collect();
    let want = batch(&accepted);
    let _g = crate::engine::watch::bytes_guard(text.as_bytes());
    let real = match guarded(|| rosu_map::from_str::<TimingPoints>(&text)) {
        Ok(Ok(r)) => r,
        Ok(Err(e)) => {
            return Some(Violation::new(
                "decode-error",
                format!("{e}"),
                json!({"kind": "lines", "env": env_json(env), "lines": lines}),
            ))
        }
        Err(p) => {
            return Some(Violation::new(
                "panic",
                p,
                json!({"kind": "lines", "env": env_json(env), "lines": lines}),
            ))
        }
    };
    check_lists(&real.control_points, &want, env).map(|(class, summary)| {
        Violation::new(
            class,
            format!("from_str {env:?} lines {lines:?}: {summary}"),
            json!({"kind": "lines", "env": env_json(env), "lines": lines}),
        )
    })
}

// ---------------------------------------------------------------------------
// E1: single-line field product (parse limits, defaults, clamps)

fn field_menus(tier: Tier) -> Vec<Vec<&'static str>> {
    let t = tier.thorough();
    let mut time = vec!["0", "10", "-5.5", " 7 ", "2147483647", "2147483648", "NaN", "x", ""];
    let mut beat = vec![
        "500", "5", "6", "60000", "60001", "-1001", "-1000", "-10", "-9", "-10001", "-10000", "-100", "-100.5", "-99.9999", "0", "NaN",
        "inf", "2147483648", "-2147483648", "x",
    ];
    let mut sig = vec!["4", "3", "0", "07", "-1", "x", "2147483648"];
    let mut bank = vec!["1", "0", "2", "3", "-1", "4", "x"];
    let mut custom = vec!["0", "2", "-1", "x"];
    let mut vol = vec!["100", "-1", "0", "101", "50", "x"];
    let mut tc = vec!["1", "0", "", "10", "x"];
    let mut flags = vec!["0", "1", "8", "9", "-1", "-8", "2", " 1", "x", "4294967295"];
    if !t {
        time.truncate(6);
        beat.retain(|b| !["-1001", "-10", "-10001", "inf"].contains(b));
        sig.truncate(5);
        bank.truncate(6);
        custom.truncate(3);
        vol.truncate(5);
        tc.truncate(4);
        flags.truncate(6);
    }
    vec![time, beat, sig, bank, custom, vol, tc, flags]
}

fn single_lines(tier: Tier, acc_out: &mut Acc) {
    let menus = field_menus(tier);
    // (a) full product of the first two fields with every number of trailing
    // fields at their baseline; (b) all pairs of deviating fields over the
    // whole line; (c) quick: pairs, thorough: triples.
    let base = ["10", "-50", "4", "1", "0", "100", "0", "0"];
    let mut lines: Vec<String> = Vec::new();
    let max_dev = tier.pick(2usize, 3usize);
    // enumerate subsets of fields of size <= max_dev
    let n = base.len();
    for mask in 0u32..(1 << n) {
        if (mask.count_ones() as usize) > max_dev {
            continue;
        }
        let idxs: Vec<usize> = (0..n).filter(|i| mask & (1 << i) != 0).collect();
        let radices: Vec<u64> = idxs.iter().map(|&i| menus[i].len() as u64).collect();
        let total = product(&radices);
        let mut d = Vec::new();
        for k in 0..total {
            digits(k, &radices, &mut d);
            let mut f: Vec<&str> = base.to_vec();
            for (j, &i) in idxs.iter().enumerate() {
                f[i] = menus[i][d[j]];
            }
            // every number of trailing fields (>= 1)
            for len in 1..=n {
                if idxs.iter().any(|&i| i >= len) {
                    continue;
                }
                lines.push(f[..len].join(","));
            }
        }
    }
    lines.sort();
    lines.dedup();
    let envs = envs();
    let total = lines.len() as u64 * envs.len() as u64;
    let acc = par_range(total, |idx, acc| {
        let env = envs[(idx % envs.len() as u64) as usize];
        let line = &lines[(idx / envs.len() as u64) as usize];
        acc.evals += 1;
        acc.transitions += 2;
        acc.states += 2;
        // alone, and after a baseline line at another time (flush path)
        for prefix in [&[][..], &["0,400,4,2,0,60,1,0"][..]] {
            let mut hist: Vec<&str> = prefix.to_vec();
            hist.push(line);
            match guarded(|| check_history(env, &hist)) {
                Ok(None) => {}
                Ok(Some((class, summary))) => acc.violation(Violation::new(
                    class,
                    format!("{env:?} {hist:?}: {summary}"),
                    json!({"kind": "lines", "env": env_json(env), "lines": hist}),
                )),
                Err(p) => acc.violation(Violation::new(
                    "panic",
                    format!("{env:?} {hist:?}: {p}"),
                    json!({"kind": "lines", "env": env_json(env), "lines": hist}),
                )),
            }
        }
        if let Some(p) = ref_parse(line, env) {
            acc.nontrivial(&format!("{p:?}"));
        } else {
            acc.count("single_lines_rejected", 1);
        }
        if idx % 50021 == 0 {
            acc.sample(|| json!({"single_line": line, "env": env_json(env)}));
        }
    });
    acc_out.count("single_line_cases", total);
    let a = std::mem::take(acc_out);
    *acc_out = a.merge(acc);
}

// ---------------------------------------------------------------------------
// E1: all sequences end-to-end

fn sequences(tier: Tier, acc_out: &mut Acc) -> Value {
    let alpha = line_alphabet(tier, false);
    let depth = tier.pick(3usize, 4usize);
    let envs: Vec<Env> = envs().into_iter().filter(|e| e.default_bank == SampleBank::None).collect();
    let mut per_len = Vec::new();
    for len in 1..=depth {
        let radices = vec![alpha.len() as u64; len];
        let total = product(&radices) * envs.len() as u64;
        let acc = par_range(total, |idx, acc| {
            let env = envs[(idx % envs.len() as u64) as usize];
            let mut d = Vec::new();
            digits(idx / envs.len() as u64, &radices, &mut d);
            let lines: Vec<&str> = d.iter().map(|&i| alpha[i].as_str()).collect();
            acc.evals += 1;
            acc.transitions += len as u64;
            acc.states += 1;
            if let Some(v) = end_to_end(env, &lines) {
                acc.violation(v);
            }
            // non-trivial: at least two accepted lines share a time or a line is rejected
            let rej = lines.iter().any(|l| ref_parse(l, env).is_none());
            let same = d.len() >= 2
                && lines
                    .windows(2)
                    .any(|w| w[0].split(',').next() == w[1].split(',').next());
            if rej || same {
                acc.nontrivial(&(env.mode as u8, &d));
            }
            if idx % 1_000_003 == 0 {
                acc.sample(|| json!({"env": env_json(env), "lines": lines}));
            }
        });
        per_len.push(json!({"len": len, "sequences": total}));
        let a = std::mem::take(acc_out);
        *acc_out = a.merge(acc);
    }
    json!({"alphabet": alpha.len(), "max_len": depth, "modes": envs.len(), "per_len": per_len})
}

pub fn run(tier: Tier) -> i32 {
    let run = Run::new("C12", tier, "model_checking");
    let mut acc = Acc::new();
    run_witnesses("C12", &mut acc, &replay);

    single_lines(tier, &mut acc);
    let seq_bounds = sequences(tier, &mut acc);

    // E2
    let lines = line_alphabet(tier, false);
    let model = Model {
        lines: std::sync::Arc::new(lines.clone()),
        envs: envs(),
    };
    let mut e2acc = Acc::new();
    let res = e2::run("C12", model, &[3], 100_000_000, &mut e2acc);
    let mut bounds = json!({"sequences_e1": seq_bounds, "e2_alphabet": lines.len(), "e2_inits": envs().len(),
        "e2_completed_depth": res.completed_depth, "e2_capped_at_depth": res.capped_at_depth, "e2_per_depth": res.per_depth});
    let mut capped = res.capped_at_depth;
    if e2acc.viols.is_empty() {
        // deeper levels: quick = reduced alphabet depth 4 (BFS); thorough = the quick-tier alphabet to depth 4 for
        // all 8 initial states and the reduced alphabet to depth 5 (depth-first search: same state set, little memory)
        let mut levels: Vec<(Vec<String>, Vec<Env>, u16, bool)> = Vec::new();
        let four: Vec<Env> = envs().into_iter().filter(|e| e.default_bank == SampleBank::None).collect();
        if tier.thorough() {
            levels.push((line_alphabet(Tier::Quick, false), envs(), 4, true));
            levels.push((line_alphabet(tier, true), four.clone(), 5, true));
            levels.push((line_alphabet(tier, true), four, 6, true));
        } else {
            levels.push((line_alphabet(tier, true), four, 4, false));
        }
        let mut deep_bounds = Vec::new();
        for (alpha, envs, depth, dfs) in levels {
            if !e2acc.viols.is_empty() {
                break;
            }
            let model = Model {
                lines: std::sync::Arc::new(alpha.clone()),
                envs: envs.clone(),
            };
            let mut a = Acc::new();
            let r = e2::run_opts("C12", model, &[depth], 600_000_000, dfs, &mut a);
            deep_bounds.push(json!({"alphabet": alpha.len(), "inits": envs.len(), "completed_depth": r.completed_depth,
                "capped_at_depth": r.capped_at_depth, "per_depth": r.per_depth}));
            capped = capped.or(r.capped_at_depth);
            e2acc = e2acc.merge(a);
        }
        bounds["e2_deep"] = json!(deep_bounds);
    }
    e2acc.evals += e2acc.transitions;
    e2acc.distinct_measured = Some(e2acc.states);
    let acc = acc.merge(e2acc);
    let summary = Summary {
        rule: "E2: stateright BFS over (cloned real TimingPointsState, incremental legacy model), one action = one line \
               through the real parse_timing_points, after every transition the converted real lists == model lists, \
               strictly increasing, clamps hold, Err iff the reference rejects. E1: every line sequence up to max_len \
               through from_str::<TimingPoints> vs the batch definition (the incremental model is checked against the \
               batch definition on the same sequences); single-line field products (<= 2/3 deviating fields, all \
               truncations) alone and after a baseline line. distinct_nontrivial = distinct canonical product states + \
               distinct sequences containing a same-time pair or a rejected line + distinct parsed single lines"
            .into(),
        bounds,
        exhaustive: capped.is_none(),
        caps_hit: capped
            .map(|d| vec![format!("E2 state cap hit at depth {d}")])
            .unwrap_or_default(),
        assumptions: vec![
            "64-bit state fingerprints do not collide".into(),
            "Debug snapshot of TimingPointsState (verif hook) is a complete description of the real state".into(),
            "line alphabet: 5 times x 11-13 line kinds; other field values only in the single-line products".into(),
        ],
    };
    finish(&run, acc, summary)
}
