pub mod c13;
