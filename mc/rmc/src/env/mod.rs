//! Observation seams and environments: trace decoder, scheduled / faulty
//! readers and writers, text encoders, reference text decoding and framing.

use std::{
    fmt,
    io::{self, BufRead, ErrorKind, Read, Write},
};

use rosu_map::{section::Section, DecodeBeatmap, DecodeState};

// ---------------------------------------------------------------------------
// Trace decoder: records which line reached which section parser

#[derive(Clone, Debug, PartialEq, Eq, Hash, Default)]
pub struct Trace {
    pub version: i32,
    pub lines: Vec<(u8, String)>,
}

#[derive(Debug)]
pub struct NoError;
impl fmt::Display for NoError {
    fn fmt(&self, f: &mut fmt::Formatter<'_>) -> fmt::Result {
        f.write_str("never")
    }
}
impl std::error::Error for NoError {}

impl DecodeState for Trace {
    fn create(version: i32) -> Self {
        Trace {
            version,
            lines: Vec::new(),
        }
    }
}

pub const SECTIONS: [(Section, &str); 11] = [
    (Section::General, "General"),
    (Section::Editor, "Editor"),
    (Section::Metadata, "Metadata"),
    (Section::Difficulty, "Difficulty"),
    (Section::Events, "Events"),
    (Section::TimingPoints, "TimingPoints"),
    (Section::Colors, "Colours"),
    (Section::HitObjects, "HitObjects"),
    (Section::Variables, "Variables"),
    (Section::CatchTheBeat, "CatchTheBeat"),
    (Section::Mania, "Mania"),
];

pub fn section_idx(s: Section) -> u8 {
    SECTIONS.iter().position(|(x, _)| *x == s).unwrap() as u8
}

macro_rules! trace_fn {
    ($name:ident, $sec:expr) => {
        fn $name(state: &mut Self::State, line: &str) -> Result<(), Self::Error> {
            state.lines.push((section_idx($sec), line.to_owned()));
            Ok(())
        }
    };
}

impl DecodeBeatmap for Trace {
    type Error = NoError;
    type State = Trace;
    trace_fn!(parse_general, Section::General);
    trace_fn!(parse_editor, Section::Editor);
    trace_fn!(parse_metadata, Section::Metadata);
    trace_fn!(parse_difficulty, Section::Difficulty);
    trace_fn!(parse_events, Section::Events);
    trace_fn!(parse_timing_points, Section::TimingPoints);
    trace_fn!(parse_colors, Section::Colors);
    trace_fn!(parse_hit_objects, Section::HitObjects);
    trace_fn!(parse_variables, Section::Variables);
    trace_fn!(parse_catch_the_beat, Section::CatchTheBeat);
    trace_fn!(parse_mania, Section::Mania);
}

// ---------------------------------------------------------------------------
// Reference text decoding + framing (written from the statements of C05/C10)

/// BOM detection, lossy decoding (UTF-8: `from_utf8_lossy` per line; UTF-16:
/// `char::decode_utf16` with replacement, odd tail dropped), split on U+000A,
/// trailing whitespace trimmed.
pub fn ref_lines(bytes: &[u8]) -> Vec<String> {
    let mut lines: Vec<String> = Vec::new();
    if bytes.starts_with(&[0xFF, 0xFE]) || bytes.starts_with(&[0xFE, 0xFF]) {
        let le = bytes[0] == 0xFF;
        let body = &bytes[2..];
        let units: Vec<u16> = body
            .chunks_exact(2)
            .map(|c| if le { u16::from_le_bytes([c[0], c[1]]) } else { u16::from_be_bytes([c[0], c[1]]) })
            .collect();
        let odd_tail = body.len() % 2 == 1;
        let text: String = char::decode_utf16(units.iter().copied())
            .map(|r| r.unwrap_or(char::REPLACEMENT_CHARACTER))
            .collect();
        let mut parts: Vec<&str> = text.split('\n').collect();
        // a dangling odd byte after the last line feed is content of a final
        // (empty once the odd tail is dropped) line
        if parts.last() == Some(&"") && !odd_tail {
            parts.pop();
        }
        lines.extend(parts.into_iter().map(|l| l.trim_end().to_string()));
    } else {
        let body = if bytes.starts_with(&[0xEF, 0xBB, 0xBF]) { &bytes[3..] } else { bytes };
        let mut parts: Vec<&[u8]> = body.split(|b| *b == b'\n').collect();
        if parts.last().is_some_and(|l| l.is_empty()) {
            parts.pop();
        }
        lines.extend(
            parts
                .into_iter()
                .map(|l| String::from_utf8_lossy(l).trim_end().to_string()),
        );
    }
    lines
}

pub fn ref_section(line: &str) -> Option<u8> {
    let inner = line.strip_prefix('[')?.strip_suffix(']')?;
    SECTIONS.iter().position(|(_, n)| *n == inner).map(|i| i as u8)
}

const PREFIX: &str = "osu file format v";

/// The procedure of C05's statement, applied to already decoded lines.
pub fn ref_frame(lines: &[String]) -> Trace {
    let mut version = 14;
    let mut i = 0;
    // first non-blank line
    while i < lines.len() && lines[i].is_empty() {
        i += 1;
    }
    if i >= lines.len() {
        return Trace { version, lines: Vec::new() };
    }
    let mut search_from = i; // the line itself may open a section
    if lines[i].starts_with(PREFIX) {
        let tail = lines[i].rsplit('v').next().unwrap_or("");
        if let Some(v) = tail.trim().parse::<i32>().ok().filter(|v| *v != i32::MIN) {
            version = v;
            search_from = i + 1;
        }
    }
    // skip everything before the first recognised header
    let mut cur: Option<u8> = None;
    let mut j = search_from;
    while j < lines.len() {
        if let Some(s) = ref_section(&lines[j]) {
            cur = Some(s);
            j += 1;
            break;
        }
        j += 1;
    }
    let mut out = Vec::new();
    let Some(mut cur) = cur else {
        return Trace { version, lines: out };
    };
    while j < lines.len() {
        let l = &lines[j];
        j += 1;
        if l.is_empty() || l.trim_start().starts_with("//") {
            continue;
        }
        if let Some(s) = ref_section(l) {
            cur = s;
            continue;
        }
        out.push((cur, l.clone()));
    }
    Trace { version, lines: out }
}

// ---------------------------------------------------------------------------
// text encoders

#[derive(Clone, Copy, Debug, PartialEq, Eq, Hash)]
pub enum Enc {
    Utf8,
    Utf8Bom,
    Utf16Le,
    Utf16Be,
}

pub const ENCS: [Enc; 4] = [Enc::Utf8, Enc::Utf8Bom, Enc::Utf16Le, Enc::Utf16Be];

pub fn encode_text(text: &str, enc: Enc) -> Vec<u8> {
    match enc {
        Enc::Utf8 => text.as_bytes().to_vec(),
        Enc::Utf8Bom => {
            let mut v = vec![0xEF, 0xBB, 0xBF];
            v.extend_from_slice(text.as_bytes());
            v
        }
        Enc::Utf16Le => {
            let mut v = vec![0xFF, 0xFE];
            for u in text.encode_utf16() {
                v.extend_from_slice(&u.to_le_bytes());
            }
            v
        }
        Enc::Utf16Be => {
            let mut v = vec![0xFE, 0xFF];
            for u in text.encode_utf16() {
                v.extend_from_slice(&u.to_be_bytes());
            }
            v
        }
    }
}

// ---------------------------------------------------------------------------
// readers

/// Delivers `data` split at the given cut offsets; reports `Interrupted`
/// before the chunks listed in `interrupts` (indices of decisions).
pub struct CutReader<'a> {
    data: &'a [u8],
    pos: usize,
    end: usize,
    cuts: &'a [usize],
    next_cut: usize,
    interrupts: &'a [usize],
    decisions: usize,
    pub fill_calls: usize,
}

impl<'a> CutReader<'a> {
    pub fn new(data: &'a [u8], cuts: &'a [usize], interrupts: &'a [usize]) -> Self {
        Self {
            data,
            pos: 0,
            end: 0,
            cuts,
            next_cut: 0,
            interrupts,
            decisions: 0,
            fill_calls: 0,
        }
    }
}

impl Read for CutReader<'_> {
    fn read(&mut self, buf: &mut [u8]) -> io::Result<usize> {
        let avail = self.fill_buf()?;
        let n = avail.len().min(buf.len());
        buf[..n].copy_from_slice(&avail[..n]);
        self.consume(n);
        Ok(n)
    }
}

impl BufRead for CutReader<'_> {
    fn fill_buf(&mut self) -> io::Result<&[u8]> {
        self.fill_calls += 1;
        if self.pos == self.end && self.pos < self.data.len() {
            let d = self.decisions;
            self.decisions += 1;
            if self.interrupts.contains(&d) {
                return Err(io::Error::new(ErrorKind::Interrupted, "injected interrupt"));
            }
            // cuts are sorted: advance a cursor instead of searching
            while self.next_cut < self.cuts.len() && self.cuts[self.next_cut] <= self.pos {
                self.next_cut += 1;
            }
            let next = self
                .cuts
                .get(self.next_cut)
                .copied()
                .unwrap_or(self.data.len())
                .min(self.data.len());
            self.end = next;
        }
        Ok(&self.data[self.pos..self.end])
    }
    fn consume(&mut self, n: usize) {
        self.pos = (self.pos + n).min(self.end);
    }
}

/// Reader driven by the E1 chooser: every refill is a choice point.
pub struct SchedReader<'a, 'c, 'p> {
    data: &'a [u8],
    pos: usize,
    end: usize,
    ch: &'c mut crate::engine::tree::Chooser<'p>,
    interrupts_left: u32,
}

impl<'a, 'c, 'p> SchedReader<'a, 'c, 'p> {
    pub fn new(data: &'a [u8], ch: &'c mut crate::engine::tree::Chooser<'p>, interrupts: u32) -> Self {
        Self {
            data,
            pos: 0,
            end: 0,
            ch,
            interrupts_left: interrupts,
        }
    }
}

impl Read for SchedReader<'_, '_, '_> {
    fn read(&mut self, buf: &mut [u8]) -> io::Result<usize> {
        let avail = self.fill_buf()?;
        let n = avail.len().min(buf.len());
        buf[..n].copy_from_slice(&avail[..n]);
        self.consume(n);
        Ok(n)
    }
}

impl BufRead for SchedReader<'_, '_, '_> {
    fn fill_buf(&mut self) -> io::Result<&[u8]> {
        if self.pos == self.end && self.pos < self.data.len() {
            let remaining = (self.data.len() - self.pos) as u32;
            // answers: 0 = everything, 1..remaining-1 = that many bytes,
            // remaining = Interrupted (if budget left)
            let arity = remaining + u32::from(self.interrupts_left > 0);
            let c = self.ch.choose(arity);
            if c == remaining {
                self.interrupts_left -= 1;
                return Err(io::Error::new(ErrorKind::Interrupted, "injected interrupt"));
            }
            let len = if c == 0 { remaining } else { c };
            self.end = self.pos + len as usize;
        }
        Ok(&self.data[self.pos..self.end])
    }
    fn consume(&mut self, n: usize) {
        self.pos = (self.pos + n).min(self.end);
    }
}

/// Delivers chunks of `chunk` bytes and fails (persistently) at `fail_at`.
pub struct FaultReader<'a> {
    data: &'a [u8],
    pos: usize,
    end: usize,
    chunk: usize,
    fail_at: usize,
    kind: ErrorKind,
    pub failures: usize,
}

impl<'a> FaultReader<'a> {
    pub fn new(data: &'a [u8], chunk: usize, fail_at: usize, kind: ErrorKind) -> Self {
        Self {
            data,
            pos: 0,
            end: 0,
            chunk: chunk.max(1),
            fail_at,
            kind,
            failures: 0,
        }
    }
}

impl Read for FaultReader<'_> {
    fn read(&mut self, buf: &mut [u8]) -> io::Result<usize> {
        let avail = self.fill_buf()?;
        let n = avail.len().min(buf.len());
        buf[..n].copy_from_slice(&avail[..n]);
        self.consume(n);
        Ok(n)
    }
}

impl BufRead for FaultReader<'_> {
    fn fill_buf(&mut self) -> io::Result<&[u8]> {
        if self.pos == self.end {
            if self.pos >= self.fail_at {
                self.failures += 1;
                return Err(io::Error::new(self.kind, "injected read fault"));
            }
            self.end = (self.pos + self.chunk).min(self.fail_at).min(self.data.len());
        }
        Ok(&self.data[self.pos..self.end])
    }
    fn consume(&mut self, n: usize) {
        self.pos = (self.pos + n).min(self.end);
    }
}

// ---------------------------------------------------------------------------
// writers

#[derive(Clone, Copy, Debug, PartialEq)]
pub enum WriteFault {
    /// `write` returns this error once `fail_at` bytes were accepted
    Err(ErrorKind),
    /// `write` returns this error exactly once, when `fail_at` bytes were accepted, and accepts data again afterwards
    ErrOnce(ErrorKind),
    /// `write` returns `Ok(0)` once `fail_at` bytes were accepted
    Zero,
    /// all writes succeed, `flush` fails
    Flush(ErrorKind),
    /// never fails; accepts at most `n` bytes per call
    Short(usize),
    /// never fails hard; reports `Interrupted` on the listed call indices
    Interrupt(usize),
    /// a buffering writer: writes are held back until a `flush` succeeds; the first `n` calls of `flush` report
    /// `Interrupted`, later ones succeed (so `out` is complete only if the encoder kept flushing until it worked)
    FlushInterrupt(usize),
    /// the same buffering writer, but after `n` interrupted calls `flush` fails hard with this kind
    FlushInterruptThenErr(usize, ErrorKind),
}

pub struct FaultWriter {
    pub out: Vec<u8>,
    pub fault: WriteFault,
    pub fail_at: usize,
    pub calls: usize,
    pub faults_reported: usize,
    pub pending: Vec<u8>,
}

impl FaultWriter {
    pub fn new(fault: WriteFault, fail_at: usize) -> Self {
        Self {
            out: Vec::new(),
            fault,
            fail_at,
            calls: 0,
            faults_reported: 0,
            pending: Vec::new(),
        }
    }
}

impl Write for FaultWriter {
    fn write(&mut self, buf: &[u8]) -> io::Result<usize> {
        let call = self.calls;
        self.calls += 1;
        if buf.is_empty() {
            return Ok(0);
        }
        match self.fault {
            WriteFault::Err(kind) => {
                if self.out.len() >= self.fail_at {
                    self.faults_reported += 1;
                    return Err(io::Error::new(kind, "injected write fault"));
                }
                let n = buf.len().min(self.fail_at - self.out.len());
                self.out.extend_from_slice(&buf[..n]);
                Ok(n)
            }
            WriteFault::ErrOnce(kind) => {
                if self.out.len() >= self.fail_at && self.faults_reported == 0 {
                    self.faults_reported += 1;
                    return Err(io::Error::new(kind, "injected one-off write fault"));
                }
                let n = if self.faults_reported == 0 { buf.len().min(self.fail_at - self.out.len()) } else { buf.len() };
                self.out.extend_from_slice(&buf[..n]);
                Ok(n)
            }
            WriteFault::Zero => {
                if self.out.len() >= self.fail_at {
                    self.faults_reported += 1;
                    return Ok(0);
                }
                let n = buf.len().min(self.fail_at - self.out.len());
                self.out.extend_from_slice(&buf[..n]);
                Ok(n)
            }
            WriteFault::Flush(_) => {
                self.out.extend_from_slice(buf);
                Ok(buf.len())
            }
            WriteFault::Short(n) => {
                let n = buf.len().min(n.max(1));
                self.out.extend_from_slice(&buf[..n]);
                Ok(n)
            }
            WriteFault::FlushInterrupt(_) | WriteFault::FlushInterruptThenErr(..) => {
                self.pending.extend_from_slice(buf);
                Ok(buf.len())
            }
            WriteFault::Interrupt(at) => {
                if call == at {
                    self.faults_reported += 1;
                    return Err(io::Error::new(ErrorKind::Interrupted, "injected interrupt"));
                }
                self.out.extend_from_slice(buf);
                Ok(buf.len())
            }
        }
    }

    fn flush(&mut self) -> io::Result<()> {
        if let WriteFault::Flush(kind) = self.fault {
            self.faults_reported += 1;
            return Err(io::Error::new(kind, "injected flush fault"));
        }
        if let WriteFault::FlushInterrupt(n) | WriteFault::FlushInterruptThenErr(n, _) = self.fault {
            if self.faults_reported < n {
                self.faults_reported += 1;
                return Err(io::Error::new(ErrorKind::Interrupted, "injected interrupted flush"));
            }
            if let WriteFault::FlushInterruptThenErr(_, kind) = self.fault {
                self.faults_reported += 1;
                return Err(io::Error::new(kind, "injected flush fault after interruptions"));
            }
            let held = std::mem::take(&mut self.pending);
            self.out.extend_from_slice(&held);
        }
        Ok(())
    }
}

// ---------------------------------------------------------------------------
// bundled files

pub fn bundled_files() -> Vec<(String, Vec<u8>)> {
    let mut v = Vec::new();
    let dir = "/repo/resources";
    let mut names: Vec<_> = std::fs::read_dir(dir)
        .unwrap_or_else(|e| crate::engine::machinery_error(&format!("cannot read {dir}: {e}")))
        .filter_map(|e| e.ok())
        .map(|e| e.file_name().to_string_lossy().to_string())
        .filter(|n| n.ends_with(".osu") || n.ends_with(".osb"))
        .collect();
    names.sort();
    for n in names {
        if let Ok(b) = std::fs::read(format!("{dir}/{n}")) {
            v.push((n, b));
        }
    }
    v
}

/// The text of a bundled file (all of them are UTF-8, possibly with BOM).
pub fn text_of(bytes: &[u8]) -> String {
    let b = if bytes.starts_with(&[0xEF, 0xBB, 0xBF]) { &bytes[3..] } else { bytes };
    String::from_utf8_lossy(b).into_owned()
}
