//! C01 — decoding and re-encoding never panic, hang or fail on arbitrary
//! bytes; C07 — specialised decoders agree with the full decoder.  Both run
//! the same exhaustive input families (different oracles) inside a supervised
//! child process.

use rosu_map::{
    section::{
        colors::Colors, difficulty::Difficulty, editor::Editor, events::Events, general::General,
        hit_objects::HitObjects, metadata::Metadata, timing_points::TimingPoints,
    },
    Beatmap,
};
use serde_json::{json, Value};

use super::{
    c01_body,
    gen::{at_time, baseline, record_alphabet, HOSTILE, SECTION_NAMES},
};
use crate::{
    engine::{
        finish, guarded, hash64, hex,
        isolate::{self, Family},
        run_witnesses, show_bytes, unhex, Acc, Run, Summary, Tier, Violation,
    },
    env::{bundled_files, encode_text, text_of, ENCS},
};

pub const SIGMA: [u8; 21] = [
    0xEF, 0xBB, 0xBF, 0xFF, 0xFE, 0x00, 0x0A, 0x0D, 0x20, b'[', b']', b'/', b':', b',', b'|', b'v', b'1', b'-', 0x80, 0xC3, 0xD8,
];

// ---------------------------------------------------------------------------
// families

fn fam_sigma(n: usize) -> Family {
    let mut offsets = vec![0u64];
    for l in 0..=n {
        offsets.push(offsets[l] + (SIGMA.len() as u64).pow(l as u32));
    }
    let total = *offsets.last().unwrap();
    Family {
        name: "all byte strings over the 21-byte alphabet",
        total,
        chunk: 8192,
        gen: Box::new(move |idx| {
            let l = offsets.iter().rposition(|o| *o <= idx).unwrap().min(n);
            let mut k = idx - offsets[l];
            let mut v = Vec::with_capacity(l);
            for _ in 0..l {
                v.push(SIGMA[(k % SIGMA.len() as u64) as usize]);
                k /= SIGMA.len() as u64;
            }
            v
        }),
    }
}

/// One record template: fixed prefix, fields, separator.
struct Template {
    section: &'static str,
    head: String,
    fields: Vec<String>,
    sep: char,
}

fn templates() -> Vec<Template> {
    let mut out = Vec::new();
    let base = baseline(0, 14);
    for (section, recs) in &base.sections {
        let mut all: Vec<String> = recs.clone();
        all.extend(record_alphabet(section).iter().map(|r| at_time(r, 1000)));
        for r in all {
            match *section {
                "Events" | "TimingPoints" | "HitObjects" => {
                    out.push(Template { section, head: String::new(), fields: r.split(',').map(str::to_string).collect(), sep: ',' });
                    if *section == "HitObjects" {
                        let f: Vec<&str> = r.split(',').collect();
                        if f.len() > 5 && f[5].contains('|') {
                            // path tokens as fields
                            out.push(Template {
                                section,
                                head: format!("{},", f[..5].join(",")),
                                fields: f[5].split('|').map(str::to_string).chain([format!(",{}", f[6..].join(","))]).collect(),
                                sep: '|',
                            });
                        }
                    }
                }
                _ => {
                    if let Some((k, val)) = r.split_once(':') {
                        out.push(Template { section, head: format!("{k}:"), fields: val.split(',').map(str::to_string).collect(), sep: ',' });
                    }
                }
            }
        }
    }
    out
}

const HOSTILE_SMALL: [&str; 10] = ["0", "-1", "", "NaN", "1e999", "2147483648", "131073", "9001", "x", "-"];
const HOSTILE_TINY: [&str; 4] = ["", "NaN", "2147483648", "-1"];

fn menu_for(k: usize) -> &'static [&'static str] {
    match k {
        0 | 1 => &HOSTILE,
        2 => &HOSTILE_SMALL,
        _ => &HOSTILE_TINY,
    }
}

struct DevPlan {
    /// (template idx, field subset)
    slots: Vec<(usize, Vec<usize>)>,
    cumulative: Vec<u64>,
    ctxs: Vec<(u8, i32)>,
}

fn dev_plan(tpls: &[Template], max_dev: usize, ctxs: Vec<(u8, i32)>) -> DevPlan {
    let mut slots = Vec::new();
    let mut cumulative = vec![0u64];
    for (ti, t) in tpls.iter().enumerate() {
        let n = t.fields.len().min(12);
        for mask in 0u32..(1 << n) {
            let k = mask.count_ones() as usize;
            if k > max_dev {
                continue;
            }
            let subset: Vec<usize> = (0..n).filter(|i| mask & (1 << i) != 0).collect();
            let count = (menu_for(k).len() as u64).pow(k as u32);
            slots.push((ti, subset));
            cumulative.push(cumulative.last().unwrap() + count);
        }
    }
    DevPlan { slots, cumulative, ctxs }
}

fn fam_deviations(max_dev: usize, ctxs: Vec<(u8, i32)>) -> Family {
    let tpls = templates();
    let plan = dev_plan(&tpls, max_dev, ctxs);
    let lines_total = *plan.cumulative.last().unwrap();
    let nctx = plan.ctxs.len() as u64;
    Family {
        name: "one record with hostile field deviations per section x mode x version",
        total: lines_total * nctx,
        chunk: 4096,
        gen: Box::new(move |idx| {
            let (mode, version) = plan.ctxs[(idx % nctx) as usize];
            let li = idx / nctx;
            let si = plan.cumulative.partition_point(|c| *c <= li) - 1;
            let (ti, subset) = &plan.slots[si];
            let t = &tpls[*ti];
            let mut k = li - plan.cumulative[si];
            let mut fields: Vec<&str> = t.fields.iter().map(String::as_str).collect();
            let menu = menu_for(subset.len());
            for &f in subset {
                fields[f] = menu[(k % menu.len() as u64) as usize];
                k /= menu.len() as u64;
            }
            let line = format!("{}{}", t.head, fields.join(&t.sep.to_string())).replace("|,", ",");
            let mut s = format!("osu file format v{version}\n[General]\nMode: {mode}\n");
            if t.section != "General" {
                s.push_str(&format!("[{}]\n", t.section));
            }
            s.push_str(&line);
            s.push('\n');
            // something for hostile timing/difficulty values to act on
            if t.section != "HitObjects" {
                s.push_str("[HitObjects]\n100,100,1000,2,0,B|200:100|200:200,2,150\n64,64,1200,1,0\n");
            }
            s.into_bytes()
        }),
    }
}

fn pool(small_only: bool) -> Vec<(String, Vec<u8>)> {
    let mut v = Vec::new();
    for (name, bytes) in bundled_files() {
        if small_only && bytes.len() > 4096 {
            continue;
        }
        let text = text_of(&bytes);
        for enc in ENCS {
            v.push((format!("{name} [{enc:?}]"), encode_text(&text, enc)));
        }
    }
    v
}

fn fam_prefixes(tier: Tier) -> Family {
    let files = pool(false);
    let dense = tier.pick(4096usize, 80_000usize);
    let mut cases: Vec<(u32, u32)> = Vec::new();
    for (fi, (_, b)) in files.iter().enumerate() {
        if b.len() <= dense {
            cases.extend((0..=b.len()).map(|c| (fi as u32, c as u32)));
        } else {
            let mut cuts: Vec<usize> = (0..64).collect();
            let lfs: Vec<usize> = b.iter().enumerate().filter(|(_, x)| **x == b'\n').map(|(i, _)| i).collect();
            let stride = (lfs.len() / 150).max(1);
            for lf in lfs.iter().step_by(stride) {
                cuts.extend(lf.saturating_sub(2)..=(lf + 3).min(b.len()));
            }
            cuts.extend(b.len().saturating_sub(16)..=b.len());
            cuts.sort_unstable();
            cuts.dedup();
            cases.extend(cuts.into_iter().map(|c| (fi as u32, c as u32)));
        }
    }
    Family {
        name: "every truncation of the bundled files in four encodings",
        total: cases.len() as u64,
        chunk: 256,
        gen: Box::new(move |idx| {
            let (fi, c) = cases[idx as usize];
            files[fi as usize].1[..c as usize].to_vec()
        }),
    }
}

fn fam_substitutions() -> Family {
    let files: Vec<(String, Vec<u8>)> = pool(true).into_iter().filter(|(n, _)| n.ends_with("[Utf8]") || n.ends_with("[Utf16Le]")).collect();
    let mut cum = vec![0u64];
    for (_, b) in &files {
        cum.push(cum.last().unwrap() + b.len() as u64 * SIGMA.len() as u64);
    }
    Family {
        name: "every single-byte substitution (21-byte alphabet) at every position of the small bundled files",
        total: *cum.last().unwrap(),
        chunk: 2048,
        gen: Box::new(move |idx| {
            let fi = cum.partition_point(|c| *c <= idx) - 1;
            let k = idx - cum[fi];
            let mut b = files[fi].1.clone();
            b[(k / SIGMA.len() as u64) as usize] = SIGMA[(k % SIGMA.len() as u64) as usize];
            b
        }),
    }
}

fn fam_line_mutations() -> Family {
    // (file, line, op): op 0 delete, 1 duplicate, 2 swap with next, 3.. field replacement
    let files: Vec<Vec<String>> = bundled_files()
        .into_iter()
        .filter(|(_, b)| b.len() <= 4096)
        .map(|(_, b)| text_of(&b).lines().map(str::to_string).collect())
        .collect();
    let mut cases: Vec<(u16, u16, u16, u16)> = Vec::new(); // file, line, field (0xFFFF = line op), value/op
    for (fi, lines) in files.iter().enumerate() {
        for (li, l) in lines.iter().enumerate() {
            for op in 0..3 {
                cases.push((fi as u16, li as u16, 0xFFFF, op));
            }
            let nfields = l.split([',', ':', '|']).count();
            if nfields > 1 || !l.is_empty() {
                for f in 0..nfields.min(24) {
                    for v in 0..HOSTILE.len() {
                        cases.push((fi as u16, li as u16, f as u16, v as u16));
                    }
                }
            }
        }
    }
    Family {
        name: "line deletions/duplications/swaps and hostile field replacements in the small bundled files",
        total: cases.len() as u64,
        chunk: 2048,
        gen: Box::new(move |idx| {
            let (fi, li, f, v) = cases[idx as usize];
            let mut lines = files[fi as usize].clone();
            let li = li as usize;
            if f == 0xFFFF {
                match v {
                    0 => {
                        lines.remove(li);
                    }
                    1 => {
                        let l = lines[li].clone();
                        lines.insert(li, l);
                    }
                    _ => {
                        if li + 1 < lines.len() {
                            lines.swap(li, li + 1);
                        }
                    }
                }
            } else {
                // replace the f-th field, keeping the separators
                let l = &lines[li];
                let mut out = String::new();
                let mut field = 0usize;
                let mut cur = String::new();
                let flush = |out: &mut String, cur: &mut String, field: usize| {
                    if field == f as usize {
                        out.push_str(HOSTILE[v as usize]);
                    } else {
                        out.push_str(cur);
                    }
                    cur.clear();
                };
                for ch in l.chars() {
                    if ch == ',' || ch == ':' || ch == '|' {
                        flush(&mut out, &mut cur, field);
                        out.push(ch);
                        field += 1;
                    } else {
                        cur.push(ch);
                    }
                }
                flush(&mut out, &mut cur, field);
                lines[li] = out;
            }
            lines.join("\r\n").into_bytes()
        }),
    }
}

fn fam_splices() -> Family {
    let files: Vec<Vec<String>> = bundled_files()
        .into_iter()
        .filter(|(_, b)| b.len() <= 4096)
        .map(|(_, b)| text_of(&b).lines().map(str::to_string).collect())
        .collect();
    let n = files.len() as u64;
    let cuts = 12u64;
    Family {
        name: "splices: head of file A up to a line + tail of file B from the proportional line",
        total: n * n * cuts,
        chunk: 2048,
        gen: Box::new(move |idx| {
            let a = &files[(idx % n) as usize];
            let b = &files[((idx / n) % n) as usize];
            let c = idx / n / n;
            let ia = (a.len() as u64 * c / cuts) as usize;
            let ib = (b.len() as u64 * c / cuts) as usize;
            let mut lines: Vec<&str> = a[..ia.min(a.len())].iter().map(String::as_str).collect();
            lines.extend(b[ib.min(b.len())..].iter().map(String::as_str));
            lines.join("\n").into_bytes()
        }),
    }
}

fn fam_two_lines(with_deviations: bool) -> Family {
    // header + two records of the same section (every ordered pair), each
    // valid or (thorough) with one hostile field
    let tpls = templates();
    let mut lines: Vec<(usize, String)> = Vec::new();
    for (si, sec) in SECTION_NAMES.iter().enumerate() {
        for t in tpls.iter().filter(|t| t.section == *sec && t.sep == ',') {
            lines.push((si, format!("{}{}", t.head, t.fields.join(","))));
            if !with_deviations {
                continue;
            }
            for f in 0..t.fields.len().min(11) {
                for h in HOSTILE_SMALL {
                    let mut fields: Vec<&str> = t.fields.iter().map(String::as_str).collect();
                    fields[f] = h;
                    lines.push((si, format!("{}{}", t.head, fields.join(","))));
                }
            }
        }
    }
    let mut by_sec: Vec<Vec<String>> = vec![Vec::new(); SECTION_NAMES.len()];
    for (si, l) in lines {
        by_sec[si].push(l);
    }
    // cap per section to keep the product finite and reported
    for v in by_sec.iter_mut() {
        v.sort();
        v.dedup();
        if v.len() > 700 {
            let step = v.len().div_ceil(700);
            *v = v.iter().step_by(step).cloned().collect();
        }
    }
    let mut cum = vec![0u64];
    for v in &by_sec {
        cum.push(cum.last().unwrap() + (v.len() as u64).pow(2));
    }
    Family {
        name: "two records of one section, each valid or with one hostile field",
        total: *cum.last().unwrap(),
        chunk: 4096,
        gen: Box::new(move |idx| {
            let si = cum.partition_point(|c| *c <= idx) - 1;
            let k = idx - cum[si];
            let v = &by_sec[si];
            let (a, b) = (&v[(k % v.len() as u64) as usize], &v[(k / v.len() as u64) as usize]);
            format!("[{}]\n{a}\n{b}\n[HitObjects]\n100,100,1000,2,0,B|200:100|200:200,2,150\n", SECTION_NAMES[si]).into_bytes()
        }),
    }
}

/// Section blocks in every order and repetition: the same section opened more than once, timing lines on both
/// sides of the hit objects, same-time control point lines split over blocks, indented (still valid) records and
/// storyboard-style lines.
const BLOCKS: [&str; 14] = [
    "[General]\nMode: 1\nPreviewTime: 7\n",
    "[General]\n Mode: 3\n\tSampleSet: Soft\n",
    "[Metadata]\nTitle: a\n Artist: b\n",
    "[Difficulty]\n SliderMultiplier: 2\nSliderTickRate:2\n",
    "[Events]\n2,100,200\n 0,0,\"bg.png\"\n",
    "[Events]\n_M,0,1\n F,0,1\n",
    "[TimingPoints]\n0,500,4,1,0,100,1,0\n",
    "[TimingPoints]\n0,-50,4,2,0,50,0,0\n",
    "[TimingPoints]\n0,300,3,1,0,100,1,0\n1000,-200,4,1,0,100,0,1\n",
    "[TimingPoints]\n1000,-100,4,3,0,30,0,0\n",
    "[HitObjects]\n100,100,1000,2,0,L|200:100,1,100\n",
    "[HitObjects]\n64,192,0,1,0\n 256,192,2000,12,0,3000\n",
    "[Colours]\nCombo1 : 1,2,3\n Combo2: 4,5,6\n",
    "[Editor]\nBookmarks: 1,2\n BeatDivisor: 3\n",
];

fn fam_blocks(max_blocks: usize) -> Family {
    let nb = BLOCKS.len() as u64;
    let mut cum = vec![0u64];
    for k in 1..=max_blocks {
        cum.push(cum.last().unwrap() + nb.pow(k as u32));
    }
    Family {
        name: "section blocks (header + one or two records, some indented) in every order with repetition",
        total: *cum.last().unwrap(),
        chunk: 4096,
        gen: Box::new(move |idx| {
            let k = cum.partition_point(|c| *c <= idx);
            let mut r = idx - cum[k - 1];
            let mut s = String::from("osu file format v14\n");
            for _ in 0..k {
                s.push_str(BLOCKS[(r % nb) as usize]);
                r /= nb;
            }
            s.into_bytes()
        }),
    }
}

pub fn families(tier: Tier) -> Vec<Family> {
    let mut ctxs: Vec<(u8, i32)> = vec![(0, 14), (1, 14), (2, 14), (3, 14), (0, 3), (0, 7), (3, 128)];
    if tier.thorough() {
        ctxs.extend([(1, 3), (2, 7), (3, 7), (1, 128)]);
    }
    let mut v = vec![
        fam_sigma(tier.pick(4, 5)),
        fam_deviations(tier.pick(2, 3), ctxs),
        fam_prefixes(tier),
        fam_substitutions(),
        fam_line_mutations(),
        fam_splices(),
    ];
    v.push(fam_two_lines(tier.thorough()));
    v.push(fam_blocks(tier.pick(4, 5)));
    v
}

/// Hostile / non-chronological inputs for C04 (the byte-noise families add
/// little there: their maps are mostly empty).
pub fn families_for_c04(tier: Tier) -> Vec<Family> {
    if tier.thorough() {
        return families(tier).into_iter().skip(1).collect();
    }
    vec![
        fam_deviations(1, vec![(0, 14), (1, 14), (2, 14), (3, 14), (0, 7)]),
        fam_line_mutations(),
        fam_splices(),
        fam_two_lines(false),
        fam_blocks(3),
    ]
}

// ---------------------------------------------------------------------------
// oracles

fn case(bytes: &[u8]) -> Value {
    json!({"kind": "bytes", "hex": hex(bytes)})
}

pub fn check_c01(bytes: &[u8], acc: &mut Acc) {
    acc.evals += 1;
    acc.states += 1;
    acc.transitions += 11;
    let guard = |f: &mut dyn FnMut()| guarded(|| f());
    let t0 = std::time::Instant::now();
    let out = c01_body::totality(bytes, &guard);
    if t0.elapsed().as_secs() >= 20 {
        acc.violation(Violation::new("too-slow", format!("{} bytes took {:?}", bytes.len(), t0.elapsed()), case(bytes)));
    }
    for (class, msg) in out.failures {
        acc.violation(Violation::new(class, format!("{}: {msg}", show_bytes(bytes)), case(bytes)));
    }
    if out.objects > 0 || out.reencoded_len > 700 {
        acc.nontrivial_hash(hash64(bytes));
    }
}

macro_rules! general_fields {
    ($g:expr) => {
        format!(
            "{:?}",
            (
                &$g.audio_file,
                $g.audio_lead_in,
                $g.preview_time,
                $g.default_sample_bank,
                $g.default_sample_volume,
                $g.stack_leniency,
                $g.mode,
                $g.letterbox_in_breaks,
                $g.special_style,
                $g.widescreen_storyboard,
                ($g.epilepsy_warning, $g.samples_match_playback_rate, $g.countdown, $g.countdown_offset)
            )
        )
    };
}
macro_rules! difficulty_fields {
    ($d:expr) => {
        format!(
            "{:?}",
            ($d.hp_drain_rate, $d.circle_size, $d.overall_difficulty, $d.approach_rate, $d.slider_multiplier, $d.slider_tick_rate)
        )
    };
}

pub fn check_c07(bytes: &[u8], conversions: bool, acc: &mut Acc) {
    acc.evals += 1;
    acc.states += 1;
    acc.transitions += 17;
    let r = guarded(|| {
        let mut diffs: Vec<String> = Vec::new();
        let Ok(map) = rosu_map::from_bytes::<Beatmap>(bytes) else { return (diffs, false) };
        macro_rules! cmp {
            ($dec:expr, $what:expr, $a:expr, $b:expr) => {
                if $a != $b {
                    diffs.push(format!("{} decoder: {} = {} but Beatmap has {}", $dec, $what, $a, $b));
                }
            };
        }
        if let Ok(g) = rosu_map::from_bytes::<General>(bytes) {
            cmp!("General", "general fields", general_fields!(g), general_fields!(map));
        }
        if let Ok(e) = rosu_map::from_bytes::<Editor>(bytes) {
            cmp!(
                "Editor",
                "editor fields",
                format!("{:?}", (&e.bookmarks, e.distance_spacing, e.beat_divisor, e.grid_size, e.timeline_zoom)),
                format!("{:?}", (&map.bookmarks, map.distance_spacing, map.beat_divisor, map.grid_size, map.timeline_zoom))
            );
        }
        if let Ok(m) = rosu_map::from_bytes::<Metadata>(bytes) {
            cmp!(
                "Metadata",
                "metadata fields",
                format!("{:?}", (&m.title, &m.title_unicode, &m.artist, &m.artist_unicode, &m.creator, &m.version, &m.source, &m.tags, m.beatmap_id, m.beatmap_set_id)),
                format!("{:?}", (&map.title, &map.title_unicode, &map.artist, &map.artist_unicode, &map.creator, &map.version, &map.source, &map.tags, map.beatmap_id, map.beatmap_set_id))
            );
        }
        if let Ok(d) = rosu_map::from_bytes::<Difficulty>(bytes) {
            cmp!("Difficulty", "difficulty fields", difficulty_fields!(d), difficulty_fields!(map));
        }
        if let Ok(e) = rosu_map::from_bytes::<Events>(bytes) {
            cmp!("Events", "background/breaks", format!("{:?}", (&e.background_file, &e.breaks)), format!("{:?}", (&map.background_file, &map.breaks)));
        }
        if let Ok(c) = rosu_map::from_bytes::<Colors>(bytes) {
            cmp!(
                "Colors",
                "colours",
                format!("{:?}", (&c.custom_combo_colors, &c.custom_colors)),
                format!("{:?}", (&map.custom_combo_colors, &map.custom_colors))
            );
        }
        if let Ok(t) = rosu_map::from_bytes::<TimingPoints>(bytes) {
            cmp!("TimingPoints", "general fields", general_fields!(t), general_fields!(map));
            cmp!("TimingPoints", "control points", format!("{:?}", t.control_points), format!("{:?}", map.control_points));
        }
        if let Ok(h) = rosu_map::from_bytes::<HitObjects>(bytes) {
            cmp!("HitObjects", "general fields", general_fields!(h), general_fields!(map));
            cmp!("HitObjects", "difficulty fields", difficulty_fields!(h), difficulty_fields!(map));
            cmp!("HitObjects", "background/breaks", format!("{:?}", (&h.background_file, &h.breaks)), format!("{:?}", (&map.background_file, &map.breaks)));
            cmp!("HitObjects", "control points", format!("{:?}", h.control_points), format!("{:?}", map.control_points));
            cmp!("HitObjects", "hit objects", format!("{:?}", h.hit_objects), format!("{:?}", map.hit_objects));
            // the crate's own conversion of the cheaper result into a Beatmap carries everything that was read
            if !conversions {
                return (diffs, !map.hit_objects.is_empty() || !map.control_points.timing_points.is_empty() || !map.title.is_empty());
            }
            let b = Beatmap::from(h);
            cmp!("Conversion HitObjects->Beatmap", "general fields", general_fields!(b), general_fields!(map));
            cmp!("Conversion HitObjects->Beatmap", "difficulty fields", difficulty_fields!(b), difficulty_fields!(map));
            cmp!("Conversion HitObjects->Beatmap", "background/breaks", format!("{:?}", (&b.background_file, &b.breaks)), format!("{:?}", (&map.background_file, &map.breaks)));
            cmp!("Conversion HitObjects->Beatmap", "control points", format!("{:?}", b.control_points), format!("{:?}", map.control_points));
            cmp!("Conversion HitObjects->Beatmap", "hit objects", format!("{:?}", b.hit_objects), format!("{:?}", map.hit_objects));
        }
        if let Ok(t) = rosu_map::from_bytes::<TimingPoints>(bytes) {
            let b = Beatmap::from(t);
            cmp!("Conversion TimingPoints->Beatmap", "general fields", general_fields!(b), general_fields!(map));
            cmp!("Conversion TimingPoints->Beatmap", "control points", format!("{:?}", b.control_points), format!("{:?}", map.control_points));
        }
        if let Ok(g) = rosu_map::from_bytes::<General>(bytes) {
            let b = Beatmap::from(g);
            cmp!("Conversion General->Beatmap", "general fields", general_fields!(b), general_fields!(map));
        }
        if let Ok(d) = rosu_map::from_bytes::<Difficulty>(bytes) {
            let b = Beatmap::from(d);
            cmp!("Conversion Difficulty->Beatmap", "difficulty fields", difficulty_fields!(b), difficulty_fields!(map));
        }
        if let Ok(e) = rosu_map::from_bytes::<Events>(bytes) {
            let b = Beatmap::from(e);
            cmp!("Conversion Events->Beatmap", "background/breaks", format!("{:?}", (&b.background_file, &b.breaks)), format!("{:?}", (&map.background_file, &map.breaks)));
        }
        if let Ok(c) = rosu_map::from_bytes::<Colors>(bytes) {
            let b = Beatmap::from(c);
            cmp!("Conversion Colors->Beatmap", "colours", format!("{:?}", (&b.custom_combo_colors, &b.custom_colors)), format!("{:?}", (&map.custom_combo_colors, &map.custom_colors)));
        }
        if let Ok(m) = rosu_map::from_bytes::<Metadata>(bytes) {
            let b = Beatmap::from(m);
            cmp!(
                "Conversion Metadata->Beatmap",
                "metadata fields",
                format!("{:?}", (&b.title, &b.title_unicode, &b.artist, &b.artist_unicode, &b.creator, &b.version, &b.source, &b.tags, b.beatmap_id, b.beatmap_set_id)),
                format!("{:?}", (&map.title, &map.title_unicode, &map.artist, &map.artist_unicode, &map.creator, &map.version, &map.source, &map.tags, map.beatmap_id, map.beatmap_set_id))
            );
        }
        if let Ok(e) = rosu_map::from_bytes::<Editor>(bytes) {
            let b = Beatmap::from(e);
            cmp!(
                "Conversion Editor->Beatmap",
                "editor fields",
                format!("{:?}", (&b.bookmarks, b.distance_spacing, b.beat_divisor, b.grid_size, b.timeline_zoom)),
                format!("{:?}", (&map.bookmarks, map.distance_spacing, map.beat_divisor, map.grid_size, map.timeline_zoom))
            );
        }
        (diffs, !map.hit_objects.is_empty() || !map.control_points.timing_points.is_empty() || !map.title.is_empty())
    });
    match r {
        Ok((diffs, nontrivial)) => {
            for d in diffs {
                let class = format!("{}-disagrees", d.split(' ').next().unwrap_or("decoder").to_lowercase());
                let d: String = d.chars().take(700).collect();
                acc.violation(Violation::new(class, format!("{}: {d}", show_bytes(&bytes[..bytes.len().min(200)])), case(bytes)));
            }
            if nontrivial {
                acc.nontrivial_hash(hash64(bytes));
            }
        }
        Err(_) => {} // panics are C01's business
    }
}

pub fn replay(case: &Value) -> Vec<Violation> {
    let mut acc = Acc::new();
    check_c01(&unhex(case["hex"].as_str().unwrap_or("")), &mut acc);
    acc.viols.into_values().flatten().collect()
}

pub fn replay_c07(case: &Value) -> Vec<Violation> {
    let mut acc = Acc::new();
    check_c07(&unhex(case["hex"].as_str().unwrap_or("")), true, &mut acc);
    acc.viols.into_values().flatten().collect()
}

fn tracing_run(tier: Tier, acc: &mut Acc) -> Value {
    // the `tracing` feature build of the subject lives in its own binary
    let exe = std::env::current_exe().ok().and_then(|p| p.parent().map(|d| d.join("rmc-tr")));
    let Some(exe) = exe.filter(|e| e.exists()) else {
        crate::engine::machinery_error("rmc-tr binary not found next to rmc (build with ./check --build)");
    };
    let out = std::process::Command::new(exe).arg(tier.as_str()).output();
    let Ok(out) = out else { crate::engine::machinery_error("cannot run rmc-tr") };
    let text = String::from_utf8_lossy(&out.stdout);
    let Some(line) = text.lines().find(|l| l.starts_with("@@TR ")) else {
        crate::engine::machinery_error(&format!("rmc-tr gave no summary (status {:?}): {}", out.status, String::from_utf8_lossy(&out.stderr)));
    };
    let v: Value = serde_json::from_str(&line[5..]).unwrap_or(Value::Null);
    acc.evals += v["evals"].as_u64().unwrap_or(0);
    acc.states += v["evals"].as_u64().unwrap_or(0);
    acc.count("tracing_build_cases", v["evals"].as_u64().unwrap_or(0));
    acc.count("tracing_events_formatted", v["events"].as_u64().unwrap_or(0));
    for f in v["failures"].as_array().cloned().unwrap_or_default() {
        acc.violation(Violation::new(
            format!("tracing-{}", f["class"].as_str().unwrap_or("failure")),
            f["msg"].as_str().unwrap_or("").to_string(),
            json!({"kind": "bytes", "hex": f["hex"], "config": "tracing"}),
        ));
    }
    v
}

/// Thorough tier: the same totality body under Miri over the sub-alphabets
/// that reach the unsafe sites (16 processes on disjoint shards, every case
/// enumerated).
fn miri_run(acc: &mut Acc) -> Value {
    let dir = format!("{}/mc/rmc-miri", crate::engine::VERIF_DIR);
    let shards = 16usize;
    let handles: Vec<_> = (0..shards)
        .map(|i| {
            let dir = dir.clone();
            std::thread::spawn(move || {
                std::process::Command::new("cargo")
                    .args(["+nightly", "miri", "run", "--offline", "--", &i.to_string(), &shards.to_string(), "thorough"])
                    .current_dir(&dir)
                    .env("CARGO_NET_OFFLINE", "true")
                    .env("CARGO_TARGET_DIR", format!("{}/mc/target-miri", crate::engine::VERIF_DIR))
                    .env("MIRIFLAGS", "-Zmiri-disable-isolation -Zmiri-ignore-leaks")
                    .env_remove("RUSTFLAGS")
                    .output()
            })
        })
        .collect();
    let mut cases = 0u64;
    let mut total = 0u64;
    for (i, h) in handles.into_iter().enumerate() {
        let out = match h.join() {
            Ok(Ok(o)) => o,
            _ => crate::engine::machinery_error("cannot run cargo +nightly miri"),
        };
        let stdout = String::from_utf8_lossy(&out.stdout);
        let stderr = String::from_utf8_lossy(&out.stderr);
        for l in stdout.lines().filter(|l| l.starts_with("@@FAIL")) {
            acc.violation(Violation::new("miri-totality-failure", l.to_string(), json!({"kind": "miri", "shard": i})));
        }
        match stdout.lines().find(|l| l.starts_with("@@MIRI ")) {
            Some(l) if out.status.success() => {
                let v: Value = serde_json::from_str(&l[7..]).unwrap_or(Value::Null);
                cases += v["cases"].as_u64().unwrap_or(0);
                total = v["total"].as_u64().unwrap_or(0);
            }
            _ => {
                let tail: String = stderr.lines().rev().take(25).collect::<Vec<_>>().into_iter().rev().collect::<Vec<_>>().join("\n");
                if tail.contains("Undefined Behavior") || tail.contains("error:") {
                    acc.violation(Violation::new("miri-undefined-behaviour", format!("shard {i}/{shards}: {tail}"), json!({"kind": "miri", "shard": i})));
                } else {
                    crate::engine::machinery_error(&format!("miri shard {i} failed without a verdict: {tail}"));
                }
            }
        }
    }
    acc.evals += cases;
    acc.count("miri_cases", cases);
    json!({"cases_run": cases, "cases_total": total, "processes": shards,
        "menus": "path token strings <= 4 over 8 tokens; invalid UTF-8 strings <= 3 over 9 bytes (in line / at end of file); custom sample banks around the >= 2 guard; UTF-16 odd tails and lone surrogates"})
}

pub fn run_generic(prop: &'static str, tier: Tier, args: &[String]) -> i32 {
    let fams = families(tier);
    if !args.iter().any(|a| a == "--child") {
        return isolate::supervise(prop, tier.as_str(), args, &fams);
    }
    isolate::limit_memory(24);
    let run = Run::new(prop, tier, "model_checking");
    let mut acc = Acc::new();
    let only = isolate::parse_only(args);
    let is_c01 = prop == "C01";
    if only.is_none() {
        run_witnesses(prop, &mut acc, if is_c01 { &replay } else { &replay_c07 });
    }
    let f = |fam: usize, idx: u64, bytes: &[u8], acc: &mut Acc| {
        if is_c01 {
            check_c01(bytes, acc);
        } else {
            // quick tier: the conversions into Beatmap (pure functions of the decoded values) only on the families with the
            // most varied decoded values: record deviations, record pairs, section blocks
            check_c07(bytes, tier.thorough() || fam == 1 || fam >= 6, acc);
        }
        if idx % 250_007 == 3 {
            acc.sample(|| json!({"input": show_bytes(&bytes[..bytes.len().min(120)])}));
        }
    };
    let a = isolate::child_loop(&fams, only, &f);
    acc = acc.merge(a);
    if only.is_some() {
        return 0;
    }
    let mut bounds = serde_json::Map::new();
    bounds.insert(
        "families".into(),
        Value::Array(fams.iter().map(|f| json!({"name": f.name, "cases": f.total})).collect()),
    );
    if is_c01 {
        let tr = tracing_run(tier, &mut acc);
        bounds.insert("tracing_configuration".into(), tr);
        if tier.thorough() {
            let m = miri_run(&mut acc);
            bounds.insert("miri".into(), m);
        }
    }
    let summary = Summary {
        rule: if is_c01 {
            "every input of the families (all byte strings of length <= 4/5 over a 21-byte alphabet; one record per section with <= 2/3 \
             hostile field deviations x modes x versions; every truncation of every bundled file in 4 encodings; every single-byte \
             substitution; line deletions/duplications/swaps and hostile field replacements; splices of file pairs) x the nine decoder \
             types, plus encode_to_string and a second decode for Beatmap, inside a supervised child (abort / non-termination are \
             attributed to a case); must terminate without panic and return Ok; the same body runs against the `tracing` feature \
             build with a formatting subscriber. distinct_nontrivial = distinct inputs that yield hit objects or a substantial encoding"
                .into()
        } else {
            "the same input families as C01; for each input every specialised decoder's fields are compared (Debug form, NaN-safe) \
             with the fields the full Beatmap decoder returns. distinct_nontrivial = distinct inputs whose map has objects, timing points or a title"
                .into()
        },
        bounds: Value::Object(bounds),
        exhaustive: true,
        caps_hit: vec![],
        assumptions: vec![
            "totality beyond the enumerated families is not claimed".into(),
            "memory safety: overflow checks and debug assertions are on in the subject build; Miri over the unsafe sites is a separate thorough-tier step".into(),
        ],
    };
    finish(&run, acc, summary)
}
