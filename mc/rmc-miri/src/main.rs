//! rmc-miri — the C01 totality body under Miri over the sub-alphabets that
//! reach the three `unsafe` sites of rosu-map (path-string split buffer,
//! from_utf8_unchecked in the lossy loop, NonZeroU32::new_unchecked for custom
//! sample banks).  usage: cargo +nightly miri run -- <shard> <shards> [thorough]
//! Every case is enumerated (no sampling); the shard decides which cases this
//! process runs.  Prints "@@MIRI {cases}" at the end; any UB aborts the process.

#[path = "../../rmc/src/props/c01_body.rs"]
mod c01_body;

use std::panic::{self, AssertUnwindSafe};

fn cases(thorough: bool) -> Vec<Vec<u8>> {
    let mut v: Vec<Vec<u8>> = Vec::new();
    // (1) path strings: all token strings up to length 3 (4) over a small alphabet
    let toks = ["B", "L", "P", "C", "100:200", "150:250", "x", ""];
    let max = if thorough { 4 } else { 3 };
    for n in 1..=max {
        for idx in 0..(toks.len() as u64).pow(n as u32) {
            let mut k = idx;
            let mut t = Vec::new();
            for _ in 0..n {
                t.push(toks[(k % toks.len() as u64) as usize]);
                k /= toks.len() as u64;
            }
            v.push(format!("[HitObjects]\n100,200,1000,2,0,{},1,100\n300,300,2000,2,0,L|310:300,1\n", t.join("|")).into_bytes());
        }
    }
    // (2) invalid UTF-8: every 2-byte string over an alphabet of lead/continuation/ASCII bytes inside a line,
    //     at the end of a line and at the end of the file
    let bytes = [0x41u8, 0x80, 0xBF, 0xC3, 0xE2, 0xF0, 0xFF, 0x0A, 0x3A];
    let lens = if thorough { 3 } else { 2 };
    for n in 1..=lens {
        for idx in 0..(bytes.len() as u64).pow(n as u32) {
            let mut k = idx;
            let mut s = Vec::new();
            for _ in 0..n {
                s.push(bytes[(k % bytes.len() as u64) as usize]);
                k /= bytes.len() as u64;
            }
            let mut f = b"[Metadata]\nTitle:a".to_vec();
            f.extend_from_slice(&s);
            f.extend_from_slice(b"z\n");
            v.push(f.clone());
            let mut g = b"[Metadata]\nTitle:a".to_vec();
            g.extend_from_slice(&s);
            v.push(g);
        }
    }
    // (3) custom sample banks around the >= 2 guard, on objects and on sample points
    for custom in ["-1", "0", "1", "2", "3", "2147483647"] {
        for vol in ["0", "50"] {
            v.push(
                format!(
                    "[General]\nMode: 3\n[TimingPoints]\n0,500,4,2,{custom},{vol},1,0\n[HitObjects]\n10,20,0,1,2,1:2:{custom}:{vol}:\n64,192,500,128,0,900:0:0:{custom}:0:\n100,100,1000,2,0,L|200:100,1,100,2|0,0:0|1:2,0:0:{custom}:0:\n"
                )
                .into_bytes(),
            );
        }
    }
    // (4) UTF-16 input with odd tails and lone surrogates
    for tail in [&[][..], &[0x0A], &[0x00, 0xD8], &[0x41], &[0x0A, 0x00, 0x41]] {
        for bom in [[0xFFu8, 0xFE], [0xFE, 0xFF]] {
            let mut f = bom.to_vec();
            for u in "[Metadata]\nTitle:x\n".encode_utf16() {
                f.extend_from_slice(&if bom[0] == 0xFF { u.to_le_bytes() } else { u.to_be_bytes() });
            }
            f.extend_from_slice(tail);
            v.push(f);
        }
    }
    v
}

fn main() {
    let args: Vec<String> = std::env::args().collect();
    let shard: usize = args.get(1).and_then(|s| s.parse().ok()).unwrap_or(0);
    let shards: usize = args.get(2).and_then(|s| s.parse().ok()).unwrap_or(1);
    let thorough = args.get(3).map(String::as_str) == Some("thorough");
    panic::set_hook(Box::new(|_| {}));
    let all = cases(thorough);
    let mut ran = 0u64;
    let mut failures = 0u64;
    for (i, c) in all.iter().enumerate() {
        if i % shards != shard {
            continue;
        }
        let guard = |f: &mut dyn FnMut()| panic::catch_unwind(AssertUnwindSafe(|| f())).map_err(|_| "panic".to_string());
        let out = c01_body::totality(c, &guard);
        ran += 1;
        if !out.failures.is_empty() {
            failures += 1;
            println!("@@FAIL {:?} {:?}", out.failures[0], String::from_utf8_lossy(c));
        }
    }
    println!("@@MIRI {{\"cases\": {ran}, \"total\": {}, \"failures\": {failures}}}", all.len());
}
