#!/usr/bin/env bash
# usage: tools/verify_seed.sh <Cxx> <a|b>
# Confirms a sub-agent's seeded change in a scratch worktree of /repo HEAD:
#  clean tree: demo passes; patched tree: existing suite passes, demo fails.
# On success stores /verif/seeded/<Cxx>-<v>/{patch.diff,demo.rs,notes.md,meta.json}.
set -u
id="$1"; v="$2"
base="${SEED_BASE:-/tmp/seed}"; suffix="${SEED_SUFFIX:-}"
src="$base/$id/SEED/$v"
[ -f "$src/patch.diff" ] || { echo "$id/$v: no patch"; exit 2; }
wt="/tmp/vs/$id$v"
rm -rf "$wt"; mkdir -p /tmp/vs
git -C /repo worktree add --detach "$wt" HEAD -q || exit 3
cleanup(){ git -C /repo worktree remove --force "$wt" >/dev/null 2>&1; rm -rf "$wt"; }
trap cleanup EXIT
cd "$wt" || exit 3
export CARGO_TARGET_DIR="$wt/target" CARGO_NET_OFFLINE=true
cp "$src/demo.rs" tests/seed_demo.rs
clean_out=$(cargo test --offline --test seed_demo 2>&1); clean_rc=$?
if ! git apply --3way "$src/patch.diff" >/dev/null 2>&1; then echo "$id/$v: PATCH-DOES-NOT-APPLY"; exit 2; fi
git reset -q
rm tests/seed_demo.rs
git diff -- src > "$wt/rebased.diff"
suite_out=$(cargo test --workspace --no-fail-fast --offline 2>&1); suite_rc=$?
cp "$src/demo.rs" tests/seed_demo.rs
demo_out=$(cargo test --offline --test seed_demo 2>&1); demo_rc=$?
passed=$(echo "$suite_out" | grep -E "^test result" | sed -E 's/.* ([0-9]+) passed.*/\1/' | paste -sd+ | bc)
verdict="REJECT"
if [ $clean_rc -eq 0 ] && [ $suite_rc -eq 0 ] && [ $demo_rc -ne 0 ] && echo "$demo_out" | grep -q "test result: FAILED"; then verdict="OK"; fi
echo "$id/$v: clean_demo_rc=$clean_rc suite_rc=$suite_rc (passed=$passed) patched_demo_rc=$demo_rc => $verdict"
if [ "$verdict" = OK ]; then
  out="/verif/seeded/$id-$v$suffix"; mkdir -p "$out"
  cp "$wt/rebased.diff" "$out/patch.diff"; cp "$src/demo.rs" "$out/demo.rs"; cp "$src/notes.md" "$out/notes.md" 2>/dev/null
  python3 - "$id" "$v" "$passed" "$out" <<'PY'
import json,sys,subprocess
pid,v,passed,out=sys.argv[1:5]
head=subprocess.check_output(["git","-C","/repo","rev-parse","HEAD"],text=True).strip()
notes=open(out+"/notes.md").read() if __import__("os").path.exists(out+"/notes.md") else ""
json.dump({"property":pid,"variant":v,"source":"independent sub-agent given only the property text",
 "repo_head_when_verified":head,
 "verified":{"clean_tree_demo":"pass","patched_existing_suite":f"pass ({passed} tests)","patched_demo":"fail"},
 "ran":["cargo test --offline --test seed_demo (clean)","git apply --3way patch.diff","cargo test --workspace --no-fail-fast --offline","cargo test --offline --test seed_demo (patched)"],
 "needs_to_manifest":"see notes.md (trigger section)","detected_by":[]}, open(out+"/meta.json","w"), indent=1)
PY
else
  echo "--- clean demo tail"; echo "$clean_out" | tail -5
  echo "--- suite tail"; echo "$suite_out" | grep -E "test result|FAILED|panicked" | head -8
  echo "--- demo tail"; echo "$demo_out" | tail -5
fi
