//! Process isolation for sweeps over hostile input (C01, C07).
//!
//! The check re-executes itself as a child (`--child`).  The child reports
//! `@@S fam chunk` / `@@D fam chunk` on stderr around every chunk of cases.  If
//! the child dies abnormally (abort on allocation failure, stack overflow,
//! signal) or a chunk makes no progress for too long (non-termination), the
//! parent re-runs the chunks that were in flight one case at a time in fresh
//! children (`--only`) and reports the culprit case as a violation.  Exit codes
//! 0/1/3 of a normally exiting child are passed through.

use std::{
    collections::HashMap,
    io::{BufRead, BufReader},
    process::{Command, Stdio},
    sync::{Arc, Mutex},
    time::{Duration, Instant},
};

use rayon::prelude::*;
use serde_json::json;

use super::{hex, machinery_error, Acc};

pub struct Family {
    pub name: &'static str,
    pub total: u64,
    pub chunk: u64,
    pub gen: Box<dyn Fn(u64) -> Vec<u8> + Send + Sync>,
}

pub const CHUNK_HANG_SECS: u64 = 180;
pub const CASE_HANG_SECS: u64 = 40;

/// Limits the address space of this process so that runaway allocation aborts
/// here instead of exhausting the sandbox.
pub fn limit_memory(gib: u64) {
    let lim = libc::rlimit {
        rlim_cur: gib << 30,
        rlim_max: gib << 30,
    };
    unsafe {
        libc::setrlimit(libc::RLIMIT_AS, &lim);
    }
}

#[derive(Clone, Copy, Debug)]
pub struct Only {
    pub fam: usize,
    pub lo: u64,
    pub hi: u64,
}

pub fn parse_only(args: &[String]) -> Option<Only> {
    let i = args.iter().position(|a| a == "--only")?;
    let spec = args.get(i + 1)?;
    let mut it = spec.split(':');
    Some(Only {
        fam: it.next()?.parse().ok()?,
        lo: it.next()?.parse().ok()?,
        hi: it.next()?.parse().ok()?,
    })
}

/// Child side: runs `f` over every case of every family (or only the given
/// range, sequentially with per-case markers).
pub fn child_loop(families: &[Family], only: Option<Only>, f: &(dyn Fn(usize, u64, &[u8], &mut Acc) + Sync)) -> Acc {
    if let Some(o) = only {
        let fam = &families[o.fam];
        let mut acc = Acc::new();
        for idx in o.lo..o.hi.min(fam.total) {
            eprintln!("@@C {idx}");
            let bytes = (fam.gen)(idx);
            f(o.fam, idx, &bytes, &mut acc);
        }
        return acc;
    }
    let mut total = Acc::new();
    for (fi, fam) in families.iter().enumerate() {
        let chunks = fam.total.div_ceil(fam.chunk.max(1));
        let t0 = Instant::now();
        let acc = (0..chunks)
            .into_par_iter()
            .fold(Acc::new, |mut acc, c| {
                eprintln!("@@S {fi} {c}");
                let lo = c * fam.chunk;
                let hi = (lo + fam.chunk).min(fam.total);
                for idx in lo..hi {
                    let bytes = (fam.gen)(idx);
                    f(fi, idx, &bytes, &mut acc);
                }
                eprintln!("@@D {fi} {c}");
                acc
            })
            .reduce(Acc::new, Acc::merge);
        eprintln!("  [family {} '{}'] {} cases in {:.1}s", fi, fam.name, fam.total, t0.elapsed().as_secs_f64());
        total = total.merge(acc);
    }
    total
}

enum End {
    Exited(i32),
    Abnormal(String),
    Hang(usize, u64),
}

fn run_child(args: &[String], extra: &[String], case_mode: bool) -> (End, HashMap<(usize, u64), Instant>, Option<u64>) {
    let exe = std::env::current_exe().unwrap_or_else(|e| machinery_error(&format!("current_exe: {e}")));
    let mut child = Command::new(exe)
        .args(args)
        .arg("--child")
        .args(extra)
        .stdin(Stdio::null())
        .stdout(Stdio::inherit())
        .stderr(Stdio::piped())
        .spawn()
        .unwrap_or_else(|e| machinery_error(&format!("cannot spawn child: {e}")));
    let inflight: Arc<Mutex<HashMap<(usize, u64), Instant>>> = Arc::new(Mutex::new(HashMap::new()));
    let last_case: Arc<Mutex<(Option<u64>, Instant)>> = Arc::new(Mutex::new((None, Instant::now())));
    let stderr = child.stderr.take().unwrap();
    let (inf2, lc2) = (inflight.clone(), last_case.clone());
    let reader = std::thread::spawn(move || {
        for line in BufReader::new(stderr).lines() {
            let Ok(line) = line else { break };
            if let Some(rest) = line.strip_prefix("@@S ") {
                let mut it = rest.split(' ');
                if let (Some(a), Some(b)) = (it.next().and_then(|x| x.parse().ok()), it.next().and_then(|x| x.parse().ok())) {
                    inf2.lock().unwrap().insert((a, b), Instant::now());
                }
            } else if let Some(rest) = line.strip_prefix("@@D ") {
                let mut it = rest.split(' ');
                if let (Some(a), Some(b)) = (it.next().and_then(|x| x.parse().ok()), it.next().and_then(|x| x.parse().ok())) {
                    inf2.lock().unwrap().remove(&(a, b));
                }
            } else if let Some(rest) = line.strip_prefix("@@C ") {
                if let Ok(i) = rest.trim().parse() {
                    *lc2.lock().unwrap() = (Some(i), Instant::now());
                }
            } else {
                eprintln!("{line}");
            }
        }
    });
    let end = loop {
        match child.try_wait() {
            Ok(Some(status)) => {
                break match status.code() {
                    Some(c @ (0 | 1 | 3)) => End::Exited(c),
                    Some(c) => End::Abnormal(format!("exit code {c}")),
                    None => {
                        use std::os::unix::process::ExitStatusExt;
                        End::Abnormal(format!("killed by signal {}", status.signal().unwrap_or(0)))
                    }
                };
            }
            Ok(None) => {}
            Err(e) => machinery_error(&format!("wait: {e}")),
        }
        if case_mode {
            let (_, t) = *last_case.lock().unwrap();
            if t.elapsed() > Duration::from_secs(CASE_HANG_SECS) {
                let _ = child.kill();
                let _ = child.wait();
                break End::Hang(0, 0);
            }
        } else {
            let stuck = inflight
                .lock()
                .unwrap()
                .iter()
                .find(|(_, t)| t.elapsed() > Duration::from_secs(CHUNK_HANG_SECS))
                .map(|(k, _)| *k);
            if let Some((f, c)) = stuck {
                let _ = child.kill();
                let _ = child.wait();
                break End::Hang(f, c);
            }
        }
        std::thread::sleep(Duration::from_millis(100));
    };
    let _ = reader.join();
    let inf = inflight.lock().unwrap().clone();
    let lc = last_case.lock().unwrap().0;
    (end, inf, lc)
}

/// Parent side.  `families` must be the same deterministic list the child builds.
pub fn supervise(prop: &str, tier: &str, args: &[String], families: &[Family]) -> i32 {
    let (end, inflight, _) = run_child(args, &[], false);
    let suspects: Vec<(usize, u64)> = match end {
        End::Exited(c) => return c,
        End::Abnormal(ref why) => {
            eprintln!("[isolate] child ended abnormally ({why}); chunks in flight: {:?}", inflight.keys().collect::<Vec<_>>());
            inflight.keys().copied().collect()
        }
        End::Hang(f, c) => {
            eprintln!("[isolate] chunk {f}/{c} made no progress for {CHUNK_HANG_SECS}s");
            vec![(f, c)]
        }
    };
    // culprit search: one case at a time
    for (fi, chunk) in suspects {
        let fam = &families[fi];
        let lo = chunk * fam.chunk;
        let hi = (lo + fam.chunk).min(fam.total);
        let (end, _, last) = run_child(args, &["--only".into(), format!("{fi}:{lo}:{hi}")], true);
        let (class, why) = match end {
            End::Exited(_) => continue,
            End::Abnormal(why) => ("process-abort", why),
            End::Hang(..) => ("non-termination", format!("no result within {CASE_HANG_SECS}s")),
        };
        let Some(idx) = last else { continue };
        let bytes = (fam.gen)(idx);
        let dir = format!("{}/replays/{prop}", super::out_dir());
        let _ = std::fs::create_dir_all(&dir);
        let path = format!("{dir}/{class}-{fi}-{idx}.json");
        let body = json!({"property": prop, "class": class, "summary": format!("family '{}' case {idx}: {why}", fam.name),
            "case": {"kind": "bytes", "hex": hex(&bytes)}});
        let _ = std::fs::write(&path, serde_json::to_string_pretty(&body).unwrap());
        println!("VIOLATION property={prop} replay={path}");
        let ev = json!({"property_id": prop, "tier": tier, "seed": 0, "level": "model_checking",
            "coverage": {"evaluations": idx.max(1), "distinct_nontrivial": 2, "states": idx.max(1), "transitions": idx.max(1),
                "traces_validated_against_impl": idx, "samples": [{"culprit_hex": hex(&bytes[..bytes.len().min(256)])}],
                "rule": "run aborted: the supervised child died; culprit found by per-case re-execution", "exhaustive": false},
            "wall_s": 0.0, "violations": 1});
        let _ = std::fs::write(format!("{}/evidence/{prop}.json", super::out_dir()), serde_json::to_string_pretty(&ev).unwrap());
        return 1;
    }
    machinery_error("supervised child died but no single case reproduces it")
}
