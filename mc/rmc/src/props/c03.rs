//! C03 — edits to a decoded map survive encode -> decode.
//! E1: map pool x every single edit (field x value menu); thorough: every pair
//! of edits on distinct fields.

use rosu_map::{
    section::{
        colors::{Color, CustomColor},
        events::BreakPeriod,
        general::{CountdownType, GameMode},
    },
    Beatmap,
};
use serde_json::{json, Value};

use super::{c02::compare, gen::baseline};
use crate::engine::{finish, guarded, par_range, run_witnesses, Acc, Run, Summary, Tier, Violation};

const TEXTS: [&str; 25] = [
    "abc",
    "Re:Zero",
    "a:b:c",
    ":lead",
    "trail:",
    "a // b",
    "//x",
    "https://osu.ppy.sh/b/1",
    "a,b,c",
    "\"quoted\"",
    "it's",
    "[HitObjects]",
    "[General]",
    "osu file format v3",
    "x [y] (z)",
    "\u{4E0A}\u{3042}\u{E9}",
    "\u{1F600} emoji",
    "-5",
    "- dash",
    "0",
    "Title: nested",
    "a\tb",
    "",
    "100,200,300,1,0",
    "#hash;semi",
];

const FILES: [&str; 10] = ["audio.mp3", "dir/a b.mp3", "a:b.mp3", "\u{FC}.ogg", "x", "", "a.b.c.wav", "\"Heroes\" (TV Size).mp3", "audio/12\"", "\"q\""];
// the last two have quotation marks inside the name (only the enclosing pair is removed on decode)
const BG_FILES: [&str; 8] = ["bg.jpg", "dir/x y.png", "\u{FC}.png", "", "a:b.jpg", "v.mp4", "my \"best\" bg.png", "12\" vinyl.jpg"];

#[derive(Clone, Debug, PartialEq)]
pub enum Edit {
    Text(u8, usize),
    AudioFile(usize),
    Background(usize),
    LeadIn(f64),
    PreviewTime(i32),
    StackLeniency(f32),
    CountdownOffset(i32),
    Bookmarks(usize),
    DistanceSpacing(f64),
    BeatDivisor(i32),
    GridSize(i32),
    TimelineZoom(f64),
    Diff(u8, f32),
    SliderMultiplier(f64),
    TickRate(f64),
    Id(u8, i32),
    Flag(u8, bool),
    Mode(u8),
    Countdown(u8),
    ComboColors(usize),
    CustomColors(usize),
    Breaks(usize),
}

// the last two repeat an entry (adjacent / apart): a list is kept as it is, duplicates included
const BOOKMARKS: [&[i32]; 6] = [&[], &[7], &[100, 2000, -5], &[2147483647, -2147483647, 0], &[1000, 2500, 2500, 4000], &[0, 5, 0]];

fn combo_colors(i: usize) -> Vec<Color> {
    match i {
        0 => vec![],
        1 => vec![Color::new(1, 2, 3, 255)],
        2 => vec![Color::new(0, 0, 0, 255), Color::new(255, 255, 255, 255), Color::new(18, 124, 255, 255)],
        // more than nine: the encoder numbers them Combo1.., two-digit numbers included
        _ => (0..12u8).map(|k| Color::new(10 * k, 200 - 7 * k, k, 255)).collect(),
    }
}

fn custom_colors(i: usize) -> Vec<CustomColor> {
    let c = |n: &str, r, g, b| CustomColor { name: n.to_string(), color: Color::new(r, g, b, 255) };
    match i {
        0 => vec![],
        1 => vec![c("SliderBorder", 9, 9, 9)],
        2 => vec![c("SliderTrackOverride", 1, 2, 3), c("SliderBorder", 255, 0, 0), c("Other", 5, 5, 5)],
        // names that differ only in case are different colours
        _ => vec![c("SliderBorder", 1, 1, 1), c("sliderborder", 2, 2, 2), c("SLIDERBORDER", 3, 3, 3)],
    }
}

fn breaks(i: usize) -> Vec<BreakPeriod> {
    let b = |s, e| BreakPeriod { start_time: s, end_time: e };
    match i {
        0 => vec![],
        1 => vec![b(100.0, 900.0)],
        2 => vec![b(100.0, 900.0), b(5000.5, 5900.25), b(7000.0, 7000.0)],
        3 => vec![b(-2147483647.0, -2147483000.0), b(400.0, 1000.0)],
        _ => vec![b(9000.0, 10000.0)],
    }
}

impl Edit {
    /// field identity: two edits with the same id touch the same field
    fn field(&self) -> (u8, u8) {
        match self {
            Edit::Text(f, _) => (0, *f),
            Edit::AudioFile(_) => (1, 0),
            Edit::Background(_) => (2, 0),
            Edit::LeadIn(_) => (3, 0),
            Edit::PreviewTime(_) => (4, 0),
            Edit::StackLeniency(_) => (5, 0),
            Edit::CountdownOffset(_) => (6, 0),
            Edit::Bookmarks(_) => (7, 0),
            Edit::DistanceSpacing(_) => (8, 0),
            Edit::BeatDivisor(_) => (9, 0),
            Edit::GridSize(_) => (10, 0),
            Edit::TimelineZoom(_) => (11, 0),
            Edit::Diff(f, _) => (12, *f),
            Edit::SliderMultiplier(_) => (13, 0),
            Edit::TickRate(_) => (14, 0),
            Edit::Id(f, _) => (15, *f),
            Edit::Flag(f, _) => (16, *f),
            Edit::Mode(_) => (17, 0),
            Edit::Countdown(_) => (18, 0),
            Edit::ComboColors(_) => (19, 0),
            Edit::CustomColors(_) => (20, 0),
            Edit::Breaks(_) => (21, 0),
        }
    }

    fn apply(&self, m: &mut Beatmap) {
        match self {
            Edit::Text(f, i) => {
                let v = TEXTS[*i].to_string();
                match f {
                    0 => m.title = v,
                    1 => m.title_unicode = v,
                    2 => m.artist = v,
                    3 => m.artist_unicode = v,
                    4 => m.creator = v,
                    5 => m.version = v,
                    6 => m.source = v,
                    _ => m.tags = v,
                }
            }
            Edit::AudioFile(i) => m.audio_file = FILES[*i].to_string(),
            Edit::Background(i) => m.background_file = BG_FILES[*i].to_string(),
            Edit::LeadIn(v) => m.audio_lead_in = *v,
            Edit::PreviewTime(v) => m.preview_time = *v,
            Edit::StackLeniency(v) => m.stack_leniency = *v,
            Edit::CountdownOffset(v) => m.countdown_offset = *v,
            Edit::Bookmarks(i) => m.bookmarks = BOOKMARKS[*i].to_vec(),
            Edit::DistanceSpacing(v) => m.distance_spacing = *v,
            Edit::BeatDivisor(v) => m.beat_divisor = *v,
            Edit::GridSize(v) => m.grid_size = *v,
            Edit::TimelineZoom(v) => m.timeline_zoom = *v,
            Edit::Diff(f, v) => match f {
                0 => m.hp_drain_rate = *v,
                1 => m.circle_size = *v,
                2 => m.overall_difficulty = *v,
                _ => m.approach_rate = *v,
            },
            Edit::SliderMultiplier(v) => m.slider_multiplier = *v,
            Edit::TickRate(v) => m.slider_tick_rate = *v,
            Edit::Id(f, v) => {
                if *f == 0 {
                    m.beatmap_id = *v;
                } else {
                    m.beatmap_set_id = *v;
                }
            }
            Edit::Flag(f, v) => match f {
                0 => m.letterbox_in_breaks = *v,
                1 => m.widescreen_storyboard = *v,
                2 => m.epilepsy_warning = *v,
                3 => m.samples_match_playback_rate = *v,
                _ => m.special_style = *v,
            },
            Edit::Mode(v) => m.mode = GameMode::from(*v),
            Edit::Countdown(v) => {
                m.countdown = match v {
                    0 => CountdownType::None,
                    1 => CountdownType::Normal,
                    2 => CountdownType::HalfSpeed,
                    _ => CountdownType::DoubleSpeed,
                }
            }
            Edit::ComboColors(i) => m.custom_combo_colors = combo_colors(*i),
            Edit::CustomColors(i) => m.custom_colors = custom_colors(*i),
            Edit::Breaks(i) => m.breaks = breaks(*i),
        }
    }

    fn json(&self) -> Value {
        json!(format!("{self:?}"))
    }
}

pub fn all_edits() -> Vec<Edit> {
    let mut v = Vec::new();
    for f in 0..8u8 {
        for i in 0..TEXTS.len() {
            v.push(Edit::Text(f, i));
        }
    }
    v.extend((0..FILES.len()).map(Edit::AudioFile));
    v.extend((0..BG_FILES.len()).map(Edit::Background));
    v.extend([0.0, 1500.0, -5.0, 2147483647.0, -2147483647.0].map(Edit::LeadIn));
    v.extend([-1, 0, 12345, 2147483647, -2147483647].map(Edit::PreviewTime));
    v.extend([0.7f32, 0.0, 1e-3, 2147483520.0, -1.5].map(Edit::StackLeniency));
    v.extend([1, 3, 2147483647].map(Edit::CountdownOffset));
    v.extend((0..BOOKMARKS.len()).map(Edit::Bookmarks));
    v.extend([0.1, 1.25, 2147483647.0, -2147483647.0, -3.5, 1e-320].map(Edit::DistanceSpacing));
    v.extend([4, 0, -3, 2147483647].map(Edit::BeatDivisor));
    v.extend([0, 16, -2147483647].map(Edit::GridSize));
    v.extend([1.0, 2.5000001, 1e-7, 2147483647.0, -2147483647.0].map(Edit::TimelineZoom));
    for f in 0..4u8 {
        for x in [0.0f32, 5.0, 9.3, 10.0, -3.5, 1e-40, 2147483648.0] {
            v.push(Edit::Diff(f, x));
        }
    }
    v.extend([0.4, 1.7, 3.6, 1.0000000000000002].map(Edit::SliderMultiplier));
    v.extend([0.5, 1.0, 2.0, 8.0, 1.5].map(Edit::TickRate));
    for f in 0..2u8 {
        for x in [1, 123, 2147483647] {
            v.push(Edit::Id(f, x));
        }
    }
    for f in 0..5u8 {
        for b in [false, true] {
            v.push(Edit::Flag(f, b));
        }
    }
    v.extend((0..4u8).map(Edit::Mode));
    v.extend((0..4u8).map(Edit::Countdown));
    v.extend((0..4).map(Edit::ComboColors));
    v.extend((0..4).map(Edit::CustomColors));
    v.extend((0..5).map(Edit::Breaks));
    v
}

pub fn pool() -> Vec<(String, Beatmap)> {
    let mut v = vec![("default".to_string(), Beatmap::default())];
    for mode in 0..4u8 {
        let text = baseline(mode, 14).text();
        if let Ok(m) = rosu_map::from_str::<Beatmap>(&text) {
            v.push((format!("baseline-mode{mode}"), m));
        }
    }
    // format versions below 5 and far above the current one: the encoder writes the version verbatim
    for (mode, ver) in [(0u8, 4), (3u8, 3), (1u8, 128)] {
        if let Ok(m) = rosu_map::from_str::<Beatmap>(&baseline(mode, ver).text()) {
            v.push((format!("baseline-mode{mode}-v{ver}"), m));
        }
    }
    let wanted = [
        "sample-beatmap-osu.osu",
        "sample-beatmap-mania.osu",
        "slider-samples.osu",
        "hitobject-custom-samplebank.osu",
        "multi-segment-slider.osu",
        "break-between-objects.osu",
    ];
    for (name, bytes) in crate::env::bundled_files() {
        if wanted.contains(&name.as_str()) {
            if let Ok(m) = rosu_map::from_bytes::<Beatmap>(&bytes) {
                v.push((name, m));
            }
        }
    }
    v
}

const MODE_INDEPENDENT: [&str; 10] = [
    "general",
    "editor",
    "metadata",
    "metadata-ids",
    "difficulty",
    "events",
    "colours",
    "timing-points",
    "hit-object-count",
    "hit-object-kind",
];

/// Applies the edits to a clone of `map`, encodes, decodes and compares.
pub fn check(name: &str, map: &Beatmap, edits: &[&Edit], acc: &mut Acc) {
    let _g = crate::engine::watch::guard("edit", |s| s.push_str(&format!("{name} {edits:?}")));
    acc.evals += 1;
    acc.states += 1;
    acc.transitions += 2;
    let case = json!({"kind": "edit", "map": name, "edits": edits.iter().map(|e| e.json()).collect::<Vec<_>>()});
    let r = guarded(|| {
        let mut edited = map.clone();
        // special_style is only carried in mania: an edit to it is representable only there
        for e in edits {
            e.apply(&mut edited);
        }
        // new-combo flags are partly DERIVED from the breaks: the decoder forces the flag on the first
        // combo-capable object after each break.  Put that expectation into the in-memory map so that the
        // comparison below is exact (an object starting exactly at a break's end is not after it).
        if edits.iter().any(|e| matches!(e, Edit::Breaks(_))) {
            for b in edited.breaks.clone() {
                if let Some(h) = edited.hit_objects.iter_mut().find(|h| h.start_time > b.end_time) {
                    match &mut h.kind {
                        rosu_map::section::hit_objects::HitObjectKind::Circle(c) => c.new_combo = true,
                        rosu_map::section::hit_objects::HitObjectKind::Slider(s) => s.new_combo = true,
                        rosu_map::section::hit_objects::HitObjectKind::Spinner(s) => s.new_combo = true,
                        rosu_map::section::hit_objects::HitObjectKind::Hold(_) => {}
                    }
                }
            }
        }
        let text = edited.encode_to_string().map_err(|e| format!("encode: {e}"))?;
        let mut back = rosu_map::from_str::<Beatmap>(&text).map_err(|e| format!("decode: {e}"))?;
        let mut diffs = compare(&mut edited, &mut back);
        // the same map through a writer that accepts only a few bytes per call (a legitimate `Write`): same text
        if edits.len() <= 1 {
            let k = 1 + text.len() % 5;
            let mut w = crate::env::FaultWriter::new(crate::env::WriteFault::Short(k), 0);
            edited.encode(&mut w).map_err(|e| format!("encode into a writer accepting {k} bytes per call: {e}"))?;
            if w.out != text.as_bytes() {
                let at = w.out.iter().zip(text.as_bytes()).take_while(|(a, b)| a == b).count();
                let ctx = String::from_utf8_lossy(&w.out[at.saturating_sub(20)..(at + 20).min(w.out.len())]).into_owned();
                diffs.push(("through-short-writes".into(), format!("the text written to a writer accepting {k} bytes per call differs at byte {at} (…{ctx:?}…), so the edits are not carried by every writer")));
            }
        }
        // ... and read back through a reader that hands out small chunks (a legitimate `BufRead`): same map
        if edits.len() <= 1 {
            let cap = 2 + text.len() % 23;
            let rd = std::io::BufReader::with_capacity(cap, std::io::Cursor::new(text.as_bytes()));
            let chunked = <Beatmap as rosu_map::DecodeBeatmap>::decode(rd).map_err(|e| format!("decode from a reader with {cap}-byte chunks: {e}"))?;
            if format!("{chunked:?}") != format!("{back:?}") {
                diffs.push(("through-chunked-reader".into(), format!("decoding the encoded text from a reader with {cap}-byte chunks gives a different map than from_str")));
            }
        }
        Ok::<_, String>(diffs)
    });
    let mode_edit = edits.iter().any(|e| matches!(e, Edit::Mode(_)));
    match r {
        Ok(Ok(diffs)) => {
            for (class, msg) in diffs {
                if mode_edit && !MODE_INDEPENDENT.contains(&class.as_str()) {
                    continue;
                }
                // data the decoder derives from the edited field is legitimately re-derived:
                // slider velocity from the slider multiplier (forced new combos from breaks are
                // pre-computed above)
                if class == "slider-velocity" && edits.iter().any(|e| matches!(e, Edit::SliderMultiplier(_))) {
                    continue;
                }
                let msg: String = msg.chars().take(500).collect();
                acc.violation(Violation::new(
                    format!("edit-lost-{class}"),
                    format!("map {name}, edits {:?}: after encode -> decode {msg}", edits),
                    case.clone(),
                ));
            }
        }
        Ok(Err(e)) => acc.violation(Violation::new("io-error", e, case)),
        Err(p) => acc.violation(Violation::new("panic", p, case)),
    }
    acc.nontrivial(&(name, format!("{edits:?}")));
}

fn parse_edit(s: &str) -> Option<Edit> {
    all_edits().into_iter().find(|e| format!("{e:?}") == s)
}

pub fn replay(case: &Value) -> Vec<Violation> {
    let mut acc = Acc::new();
    let name = case["map"].as_str().unwrap_or("default");
    let edits: Vec<Edit> = case["edits"].as_array().map(|a| a.iter().filter_map(|v| v.as_str().and_then(parse_edit)).collect()).unwrap_or_default();
    if let Some((_, map)) = pool().into_iter().find(|(n, _)| n == name) {
        let refs: Vec<&Edit> = edits.iter().collect();
        check(name, &map, &refs, &mut acc);
    }
    acc.viols.into_values().flatten().collect()
}

pub fn run(tier: Tier) -> i32 {
    let run = Run::new("C03", tier, "model_checking");
    let mut acc = Acc::new();
    run_witnesses("C03", &mut acc, &replay);
    let pool = pool();
    let edits = all_edits();
    let ne = edits.len() as u64;
    // the pool maps themselves must round-trip (else every edit would be blamed)
    for (name, map) in &pool {
        check(name, map, &[], &mut acc);
    }
    let singles = pool.len() as u64 * ne;
    let a = par_range(singles, |idx, acc| {
        let (name, map) = &pool[(idx / ne) as usize];
        let e = &edits[(idx % ne) as usize];
        check(name, map, &[e], acc);
        if idx % 1009 == 5 {
            acc.sample(|| json!({"map": name, "edit": e.json()}));
        }
    });
    acc = acc.merge(a);
    let mut pairs_total = 0u64;
    // pairs: quick on two maps, thorough on the whole pool
    let pair_maps: Vec<usize> = (0..pool.len()).collect();
    for &mi in &pair_maps {
        let (name, map) = &pool[mi];
        let a = par_range(ne * ne, |idx, acc| {
            let (i, j) = ((idx / ne) as usize, (idx % ne) as usize);
            if i >= j || edits[i].field() == edits[j].field() {
                return;
            }
            check(name, map, &[&edits[i], &edits[j]], acc);
        });
        pairs_total += a.evals;
        acc = acc.merge(a);
    }
    // thorough: every triple of edits on distinct fields; the full edit list on two baselines (osu, mania), a reduced
    // list (every third edit) on every other map of the pool
    let mut triples_total = 0u64;
    if tier.thorough() {
        let reduced: Vec<&Edit> = edits.iter().enumerate().filter(|(i, _)| i % 3 == 0).map(|(_, e)| e).collect();
        let full: Vec<&Edit> = edits.iter().collect();
        for (mi, (name, map)) in pool.iter().enumerate() {
            let list = if mi == 1 || mi == 4 { &full } else { &reduced };
            let nr = list.len() as u64;
            let a = par_range(nr * nr * nr, |idx, acc| {
                let (i, j, k) = ((idx / nr / nr) as usize, ((idx / nr) % nr) as usize, (idx % nr) as usize);
                if !(i < j && j < k) {
                    return;
                }
                let (a, b, c) = (list[i], list[j], list[k]);
                if a.field() == b.field() || b.field() == c.field() || a.field() == c.field() {
                    return;
                }
                check(name, map, &[a, b, c], acc);
            });
            triples_total += a.evals;
            acc = acc.merge(a);
        }
    }
    let summary = Summary {
        rule: "map pool (default map, the four per-mode full-featured baselines, six bundled maps) x every single edit of the edit \
               alphabet (8 text fields x 25 strings with colons, '//', commas, quotes, brackets, header-like and version-like text, \
               non-ASCII; file names; boundary numbers within the parse limits; flags; mode; countdown; bookmark lists; colours; \
               breaks) and every pair of edits on distinct fields on every map of the pool (thorough: also every triple, \
               full edit list on two baselines, every third edit elsewhere): the edited in-memory map is encoded and decoded and compared with C02's field list; every \
               difference is a violation (for mode edits only mode-independent fields are compared). distinct_nontrivial = distinct (map, edits)"
            .into(),
        bounds: json!({"pool": pool.iter().map(|p| p.0.clone()).collect::<Vec<_>>(), "edits": ne, "single_edit_cases": singles, "pair_cases": pairs_total, "triple_cases": triples_total}),
        exhaustive: true,
        caps_hit: vec![],
        assumptions: vec![
            "only representable values are in the menus: no line breaks or surrounding whitespace, no '//' or ',' in event file names, \
             positive ids/countdown offset, colours with alpha 255, custom colour names not starting with 'Combo', multipliers inside their clamps"
                .into(),
        ],
    };
    finish(&run, acc, summary)
}
