//! C14 — hit-object lines decode per the legacy grammar.
//! E1: exhaustive field-wise enumeration (every type byte x sound byte for
//! circles, field deviations for sliders/spinners/holds, all path token strings
//! up to a length, node lists) against an independent reference parser; the
//! real parser is observed through `HitObjectsState::hit_objects` (raw objects,
//! before map-level defaults).

use std::num::{NonZeroI32, NonZeroU32};

use rosu_map::{
    section::{
        general::GameMode,
        hit_objects::{
            hit_samples::{HitSampleInfo, HitSampleInfoName, SampleBank},
            HitObject, HitObjectCircle, HitObjectHold, HitObjectKind, HitObjectSlider, HitObjectSpinner, HitObjects,
            PathControlPoint, PathType, SliderPath,
        },
    },
    util::Pos,
    DecodeBeatmap, DecodeState,
};
use serde_json::{json, Value};

use crate::engine::{digits, finish, guarded, par_range, product, run_witnesses, Acc, Run, Summary, Tier, Violation};

// ---------------------------------------------------------------------------
// reference parser (legacy grammar as stated in the property)

fn strip(l: &str) -> &str {
    match l.find("//") {
        Some(i) => l[..i].trim_end(),
        None => l.trim_end(),
    }
}
fn pi(s: &str) -> Option<i32> {
    let n: i32 = s.trim().parse().ok()?;
    (n != i32::MIN).then_some(n)
}
fn pf(s: &str, lim: f64) -> Option<f64> {
    let n: f64 = s.trim().parse().ok()?;
    (!(n < -lim || n > lim || n.is_nan())).then_some(n)
}
fn pf32(s: &str, lim: f32) -> Option<f32> {
    let n: f32 = s.trim().parse().ok()?;
    (!(n < -lim || n > lim || n.is_nan())).then_some(n)
}

#[derive(Clone, Default)]
struct Bank {
    filename: Option<String>,
    normal: Option<SampleBank>,
    add: Option<SampleBank>,
    volume: i32,
    custom: i32,
}

fn bank_of(n: i32) -> SampleBank {
    match n {
        0 => SampleBank::None,
        1 => SampleBank::Normal,
        2 => SampleBank::Soft,
        3 => SampleBank::Drum,
        _ => SampleBank::Normal,
    }
}

fn read_banks(b: &mut Bank, parts: &[&str], banks_only: bool) -> Option<()> {
    let first = match parts.first() {
        Some(f) if !f.is_empty() => *f,
        _ => return Some(()),
    };
    let bank = bank_of(pi(first)?);
    let add = bank_of(pi(parts.get(1)?)?);
    let normal = (bank != SampleBank::None).then_some(bank);
    let add = (add != SampleBank::None).then_some(add);
    b.normal = normal;
    b.add = add.or(normal);
    if banks_only {
        return Some(());
    }
    if let Some(c) = parts.get(2) {
        b.custom = pi(c)?;
    }
    if let Some(v) = parts.get(3) {
        b.volume = pi(v)?.max(0);
    }
    b.filename = parts.get(4).map(|s| (*s).to_string());
    Some(())
}

fn info(name: HitSampleInfoName, bank: Option<SampleBank>, custom: i32, volume: i32) -> HitSampleInfo {
    HitSampleInfo {
        name,
        bank: bank.unwrap_or(SampleBank::Normal),
        suffix: if custom >= 2 { NonZeroU32::new(custom as u32) } else { None },
        volume,
        custom_sample_bank: custom,
        bank_specified: bank.is_some(),
        is_layered: false,
    }
}

fn samples(b: &Bank, sound: u8) -> Vec<HitSampleInfo> {
    let mut v = vec![];
    match &b.filename {
        Some(f) if !f.is_empty() => v.push(info(HitSampleInfoName::File(f.clone()), None, 1, b.volume)),
        _ => {
            let mut s = info(HitSampleInfo::HIT_NORMAL, b.normal, b.custom, b.volume);
            s.is_layered = sound != 0 && sound & 1 == 0;
            v.push(s);
        }
    }
    if sound & 4 != 0 {
        v.push(info(HitSampleInfo::HIT_FINISH, b.add, b.custom, b.volume));
    }
    if sound & 2 != 0 {
        v.push(info(HitSampleInfo::HIT_WHISTLE, b.add, b.custom, b.volume));
    }
    if sound & 8 != 0 {
        v.push(info(HitSampleInfo::HIT_CLAP, b.add, b.custom, b.volume));
    }
    v
}

fn ptype(s: &str) -> PathType {
    let mut c = s.chars();
    match c.next() {
        Some('B') => {
            if let Ok(d) = c.as_str().parse::<i32>() {
                if d > 0 {
                    return PathType::new_b_spline(NonZeroI32::new(d).unwrap());
                }
            }
            PathType::BEZIER
        }
        Some('L') => PathType::LINEAR,
        Some('P') => PathType::PERFECT_CURVE,
        _ => PathType::CATMULL,
    }
}

fn rpoint(s: &str, off: Pos) -> Option<Pos> {
    let mut it = s.split(':');
    let x = it.next()?;
    let y = it.next()?;
    let x = pf(x, 131072.0);
    let y = pf(y, 131072.0);
    // positions are truncated to integers, then made relative to the head
    Some(Pos::new(x? as i32 as f32, y? as i32 as f32) - off)
}

/// One segment: `points[0]` is the type letter, the rest its points; `end` is
/// the point that follows the next type letter (shared segment end).
fn seg(points: &[&str], end: Option<&str>, first: bool, off: Pos, out: &mut Vec<PathControlPoint>) -> Option<()> {
    let mut t = ptype(points[0]);
    let mut v: Vec<PathControlPoint> = vec![];
    if first {
        v.push(PathControlPoint::default());
    }
    for p in &points[1..] {
        v.push(PathControlPoint::new(rpoint(p, off)?));
    }
    if let Some(e) = end {
        v.push(PathControlPoint::new(rpoint(e, off)?));
    }
    if t == PathType::PERFECT_CURVE {
        if v.len() == 3 {
            let (a, b, c) = (v[0].pos, v[1].pos, v[2].pos);
            if ((b.y - a.y) * (c.x - a.x) - (b.x - a.x) * (c.y - a.y)).abs() < f32::EPSILON {
                t = PathType::LINEAR;
            }
        } else {
            t = PathType::BEZIER;
        }
    }
    if v.is_empty() {
        return None;
    }
    v[0].path_type = Some(t);
    let epl = usize::from(end.is_some());
    let lim = v.len() - epl;
    let mut start = 0;
    let mut i = 1;
    while i < lim {
        // a repeated point splits the segment, except in Catmull paths (after
        // the first pair) and at the segment's end
        if v[i].pos == v[i - 1].pos && !(t == PathType::CATMULL && i > 1) && i != lim - 1 {
            v[i - 1].path_type = Some(t);
            out.extend_from_slice(&v[start..i]);
            start = i + 1;
        }
        i += 1;
    }
    if i > start {
        out.extend_from_slice(&v[start..i.min(v.len())]);
    }
    Some(())
}

fn path(s: &str, off: Pos) -> Option<Vec<PathControlPoint>> {
    let toks: Vec<&str> = s.split('|').collect();
    let mut out = vec![];
    let mut start = 0;
    let mut first = true;
    let mut i = 1;
    while i < toks.len() {
        let c = toks[i].chars().next()?;
        if c.is_ascii_alphabetic() {
            seg(&toks[start..i], toks.get(i + 1).copied(), first, off, &mut out)?;
            start = i;
            first = false;
        }
        i += 1;
    }
    if i > start {
        seg(&toks[start..i], None, first, off, &mut out)?;
    }
    Some(out)
}

/// Kind of the previously accepted object, as the grammar defines it.
#[derive(Clone, Copy, PartialEq, Debug)]
pub enum Prev {
    None,
    Spinner,
    Other,
}

/// kind by flag precedence circle > slider > spinner > hold
fn kind_of_type(ty: i32) -> Option<u8> {
    if ty & 1 != 0 {
        Some(0)
    } else if ty & 2 != 0 {
        Some(1)
    } else if ty & 8 != 0 {
        Some(2)
    } else if ty & 128 != 0 {
        Some(3)
    } else {
        None
    }
}

pub fn reference(line: &str, prev: Prev, mode: GameMode) -> Option<HitObject> {
    let f: Vec<&str> = strip(line).split(',').collect();
    if f.len() < 5 {
        return None;
    }
    let x = pf32(f[0], 131072.0)? as i32 as f32;
    let y = pf32(f[1], 131072.0)? as i32 as f32;
    let pos = Pos::new(x, y);
    let start = pf(f[2], f64::from(i32::MAX))?;
    // like every other integer field: white space around the number is tolerated
    let ty: i32 = f[3].trim().parse().ok()?;
    let sound = (f[4].trim().parse::<i32>().ok()? & 0xFF) as u8;
    let combo_off = (ty & 0x70) >> 4;
    let new_combo = ty & 4 != 0;
    let mut b = Bank::default();
    let forced = prev != Prev::Other;
    let kind = match kind_of_type(ty)? {
        0 => {
            if let Some(e) = f.get(5) {
                read_banks(&mut b, &e.split(':').collect::<Vec<_>>(), false)?;
            }
            HitObjectKind::Circle(HitObjectCircle {
                pos,
                new_combo: forced || new_combo,
                combo_offset: if new_combo { combo_off } else { 0 },
            })
        }
        1 => {
            let ps = f.get(5)?;
            let rc = pi(f.get(6)?)?;
            if rc > 9000 {
                return None;
            }
            let rc = (rc - 1).max(0);
            let mut len = None;
            if let Some(l) = f.get(7) {
                let l = pf(l, 131072.0)?.max(0.0);
                if l.abs() >= f64::EPSILON {
                    len = Some(l);
                }
            }
            if let Some(e) = f.get(10) {
                read_banks(&mut b, &e.split(':').collect::<Vec<_>>(), true)?;
            }
            let nodes = rc as usize + 2;
            let mut nb = vec![b.clone(); nodes];
            if let Some(s) = f.get(9).filter(|s| !s.is_empty()) {
                for (nbi, set) in nb.iter_mut().zip(s.split('|')) {
                    read_banks(nbi, &set.split(':').collect::<Vec<_>>(), false)?;
                }
            }
            let mut ns = vec![sound; nodes];
            if let Some(s) = f.get(8).filter(|s| !s.is_empty()) {
                for (n, t) in ns.iter_mut().zip(s.split('|')) {
                    *n = t.trim().parse::<i32>().map(|v| (v & 0xFF) as u8).unwrap_or(0);
                }
            }
            let node_samples = nb.iter().zip(&ns).map(|(b, s)| samples(b, *s)).collect();
            let cps = path(ps, pos)?;
            HitObjectKind::Slider(HitObjectSlider {
                pos,
                new_combo: forced || new_combo,
                combo_offset: if new_combo { combo_off } else { 0 },
                path: SliderPath::new(mode, cps, len),
                node_samples,
                repeat_count: rc,
                velocity: 1.0,
            })
        }
        2 => {
            let end = pf(f.get(5)?, f64::from(i32::MAX))?;
            if let Some(e) = f.get(6) {
                read_banks(&mut b, &e.split(':').collect::<Vec<_>>(), false)?;
            }
            HitObjectKind::Spinner(HitObjectSpinner {
                pos: Pos::new(256.0, 192.0),
                duration: (end - start).max(0.0),
                new_combo,
            })
        }
        _ => {
            let mut end = start;
            if let Some(e) = f.get(5).filter(|s| !s.is_empty()) {
                let parts: Vec<&str> = e.split(':').collect();
                end = start.max(pf(parts[0], f64::from(i32::MAX))?);
                read_banks(&mut b, &parts[1..], false)?;
            }
            HitObjectKind::Hold(HitObjectHold {
                pos_x: x,
                duration: end - start,
            })
        }
    };
    Some(HitObject {
        start_time: start,
        kind,
        samples: samples(&b, sound),
    })
}

// ---------------------------------------------------------------------------
// real parser through the public API

/// Context lines fed before the line under test.
pub const CONTEXTS: [&[&str]; 13] = [
    &[],
    &["0,0,0,1,0"],
    &["256,192,0,8,0,100"],
    &["0,0,0,9,0"],              // circle + spinner bits: a circle by precedence
    &["0,0,0,2,0,L|10:0,1,10"],
    &["0,0,0,10,0,L|10:0,1,10"], // slider + spinner bits: a slider by precedence
    &["0,0,0,136,0,100"],        // spinner + hold bits: a spinner
    &["0,0,0,128,0,100:0:0:0:0:"],
    // rejected lines are not objects: they neither make the next object "not first" nor "after a spinner"
    &["0,0,0,2,0"],                              // slider without a path: rejected
    &["256,192,0,8,0"],                          // spinner without an end time: rejected
    &["0,0,0,64,0"],                             // no kind bit: rejected
    &["256,192,0,8,0,100", "0,0,0,2,0"],         // spinner, then a rejected slider
    &["0,0,0,1,0", "256,192,0,8,0"],             // circle, then a rejected spinner
];

fn prev_after(ctx: &[&str]) -> Prev {
    let mut prev = Prev::None;
    for l in ctx {
        if let Some(o) = reference(l, prev, GameMode::Osu) {
            prev = if matches!(o.kind, HitObjectKind::Spinner(_)) { Prev::Spinner } else { Prev::Other };
        }
    }
    prev
}

fn real(line: &str, ctx: &[&str], mode: GameMode) -> Result<Option<HitObject>, String> {
    let mut st = <HitObjects as DecodeBeatmap>::State::create(14);
    let _ = HitObjects::parse_general(&mut st, &format!("Mode: {}", mode as i32));
    for l in ctx {
        let _ = HitObjects::parse_hit_objects(&mut st, l);
    }
    let n = st.hit_objects.len();
    let r = HitObjects::parse_hit_objects(&mut st, line);
    match r {
        Ok(()) => {
            if st.hit_objects.len() != n + 1 {
                return Err(format!("accepted line added {} objects", st.hit_objects.len() - n));
            }
            Ok(st.hit_objects.pop())
        }
        Err(_) => {
            if st.hit_objects.len() != n {
                return Err("rejected line changed the object list".into());
            }
            Ok(None)
        }
    }
}

fn eq(a: &Option<HitObject>, b: &Option<HitObject>) -> bool {
    match (a, b) {
        (None, None) => true,
        (Some(a), Some(b)) => {
            a == b
                && super::gen::same_samples(&a.samples, &b.samples)
                && match (&a.kind, &b.kind) {
                    (HitObjectKind::Slider(x), HitObjectKind::Slider(y)) => {
                        x.path.expected_dist().map(f64::to_bits) == y.path.expected_dist().map(f64::to_bits)
                            && super::gen::same_control_points(x.path.control_points(), y.path.control_points())
                            && super::gen::same_node_samples(&x.node_samples, &y.node_samples)
                    }
                    _ => true,
                }
        }
        _ => false,
    }
}

fn classify(got: &Option<HitObject>, want: &Option<HitObject>) -> &'static str {
    match (got, want) {
        (None, Some(_)) | (Some(_), None) => "accept-reject",
        (Some(g), Some(w)) => {
            if std::mem::discriminant(&g.kind) != std::mem::discriminant(&w.kind) {
                "kind-precedence"
            } else if g.samples != w.samples || !super::gen::same_samples(&g.samples, &w.samples) {
                "samples"
            } else {
                match (&g.kind, &w.kind) {
                    (HitObjectKind::Slider(x), HitObjectKind::Slider(y)) => {
                        if !super::gen::same_control_points(x.path.control_points(), y.path.control_points()) {
                            "path-control-points"
                        } else if x.node_samples != y.node_samples || !super::gen::same_node_samples(&x.node_samples, &y.node_samples) {
                            "node-samples"
                        } else if x.new_combo != y.new_combo || x.combo_offset != y.combo_offset {
                            "combo"
                        } else {
                            "slider-fields"
                        }
                    }
                    (HitObjectKind::Circle(x), HitObjectKind::Circle(y)) if x.new_combo != y.new_combo || x.combo_offset != y.combo_offset => "combo",
                    _ => "fields",
                }
            }
        }
        _ => "none",
    }
}

fn check_line(line: &str, ctxs: &[usize], modes: &[GameMode], acc: &mut Acc) {
    let _g = crate::engine::watch::guard("line", |s| s.push_str(line));
    for &ci in ctxs {
        let ctx = CONTEXTS[ci];
        let prev = prev_after(ctx);
        for &mode in modes {
            acc.evals += 1;
            acc.transitions += 1 + ctx.len() as u64;
            let want = reference(line, prev, mode);
            match guarded(|| real(line, ctx, mode)) {
                Ok(Ok(got)) => {
                    if !eq(&got, &want) {
                        acc.violation(Violation::new(
                            classify(&got, &want),
                            format!("{line:?} after {ctx:?} ({mode:?}): got {got:?}, grammar says {want:?}"),
                            json!({"kind": "line", "line": line, "context": ci, "mode": mode as i32}),
                        ));
                    }
                }
                Ok(Err(e)) => acc.violation(Violation::new("object-list", format!("{line:?}: {e}"), json!({"kind": "line", "line": line, "context": ci, "mode": mode as i32}))),
                Err(p) => acc.violation(Violation::new("panic", format!("{line:?}: {p}"), json!({"kind": "line", "line": line, "context": ci, "mode": mode as i32}))),
            }
            if ci == ctxs[0] && mode == modes[0] {
                if let Some(w) = &want {
                    acc.nontrivial(&format!("{w:?}"));
                }
            }
        }
    }
}

pub fn replay(case: &Value) -> Vec<Violation> {
    let mut acc = Acc::new();
    let line = case["line"].as_str().unwrap_or("");
    let ci = case["context"].as_u64().unwrap_or(0) as usize % CONTEXTS.len();
    let mode = GameMode::from(case["mode"].as_u64().unwrap_or(0) as u8);
    check_line(line, &[ci], &[mode], &mut acc);
    acc.viols.into_values().flatten().collect()
}

const ALL_CTX: [usize; 13] = [0, 1, 2, 3, 4, 5, 6, 7, 8, 9, 10, 11, 12];
const NUMS: [&str; 21] = [
    "0", "1", "-1", "2", "0.5", " 7 ", "+7", "", "-", "NaN", "inf", "1e999", "2147483647", "2147483648", "-2147483648", "131072",
    "131073", "-131072.5", "9000", "9001", "x",
];
const PATH_TOKENS: [&str; 16] = [
    "B", "B3", "L", "P", "C", "x", "100:200", "150:200", "200:200", "150:250", "", "1", "1:x", "150.9:200.2", "L1", "Px",
];

pub fn run(tier: Tier) -> i32 {
    let run = Run::new("C14", tier, "model_checking");
    let mut acc = Acc::new();
    run_witnesses("C14", &mut acc, &replay);
    let modes = [GameMode::Osu, GameMode::Mania];
    let mut bounds = serde_json::Map::new();

    // (1) circles: every type byte x every sound byte x every context
    let extras = ["", ",0:0:0:0:", ",258:0:0:0:", ",256:259:0:0:", ",-254:2:0:0:", ",0:0:-1:0:", ",1:2:-7:30:", ",1:2:3:40:x.wav", ",2:0", ",3:1:0", ",4:4:1:-5:", ",1", ",x:0", ",0:0:0:0:a:b", ",1:2:3", ",0:3:2:120:", ",:1:1"];
    let total = 256 * 256;
    let a = par_range(total, |idx, acc| {
        let (ty, s) = (idx / 256, idx % 256);
        acc.states += 1;
        let line = format!("64.9,-32.5,1000.5,{ty},{s}");
        check_line(&line, &ALL_CTX, &modes[..1], acc);
        // circle-typed lines with every extras shape (type bytes that are circles by precedence)
        if ty & 1 != 0 && (s < 16 || s == 255) {
            for e in extras {
                check_line(&format!("100,200,500,{ty},{s}{e}"), &[0, 2], &modes[..1], acc);
            }
        }
        // with valid trailing fields so that slider / spinner / hold typed bytes are accepted too
        let full = format!("64,32,1000,{ty},{s},L|100:32,2,40,2|0|8,0:0|1:2|3:1,1:2:3:50:");
        check_line(&full, &[0, 2, 3], &modes[..1], acc);
        let sp = format!("64,32,1000,{ty},{s},2000:1:2:3:40:");
        check_line(&sp, &[0, 2, 3], &modes[..1], acc);
        if idx == 5 * 256 + 14 {
            acc.sample(|| json!({"line": line}));
        }
    });
    acc = acc.merge(a);
    bounds.insert("type_x_sound".into(), json!({"type_bytes": 256, "sound_bytes": 256, "contexts": ALL_CTX.len(), "extras_shapes": extras.len()}));
    // out-of-byte type / sound values
    for ty in ["256", "257", "-1", "1024", "2147483647", "2147483648", "x", "", " 1", "1.0"] {
        for s in ["0", "2", "256", "258", "-1", "2147483648", "x", "", " 2"] {
            check_line(&format!("1,2,3,{ty},{s}"), &[0, 2], &modes[..1], &mut acc);
        }
    }

    // (2) field deviations of slider / spinner / hold / circle baselines
    let bases: [&[&str]; 4] = [
        &["100", "200", "1000", "2", "4", "B|150:250|200:200", "2", "120.5", "2|0|8", "0:0|1:2|3:1", "1:2:3:50:f.wav"],
        &["256", "192", "1000", "12", "2", "2000", "1:2:3:40:"],
        &["64", "192", "1000", "128", "2", "2600:1:2:3:40:hold.wav"],
        &["10", "20", "1000", "5", "14", "2:3:1:50:"],
    ];
    let specials = ["", "x", "0", "9001", "2147483648", "1|2|3|4|5", "0:0:0|1", "500:0:0", "1:1", "2|x|4", "1:2|3", "0:0:0:0:file.wav"];
    let max_dev = tier.pick(2, 3);
    let mut lines: Vec<String> = Vec::new();
    for base in bases {
        let n = base.len();
        for len in 4..=n {
            lines.push(base[..len].join(","));
        }
        let menu: Vec<&str> = NUMS.iter().chain(specials.iter()).copied().collect();
        for mask in 0u32..(1 << n) {
            let k = mask.count_ones() as usize;
            if k == 0 || k > max_dev {
                continue;
            }
            let idxs: Vec<usize> = (0..n).filter(|i| mask & (1 << i) != 0).collect();
            let radices = vec![menu.len() as u64; k];
            let mut d = Vec::new();
            for c in 0..product(&radices) {
                digits(c, &radices, &mut d);
                let mut f: Vec<&str> = base.to_vec();
                for (j, &i) in idxs.iter().enumerate() {
                    f[i] = menu[d[j]];
                }
                lines.push(f.join(","));
            }
        }
    }
    lines.sort();
    lines.dedup();
    let nlines = lines.len() as u64;
    let a = par_range(nlines, |idx, acc| {
        acc.states += 1;
        check_line(&lines[idx as usize], &[0, 1, 2], &modes, acc);
        if idx % 100_003 == 11 {
            acc.sample(|| json!({"line": lines[idx as usize]}));
        }
    });
    acc = acc.merge(a);
    bounds.insert("field_deviations".into(), json!({"baselines": bases.len(), "max_deviating_fields": max_dev, "menu": NUMS.len() + specials.len(), "lines": nlines}));

    // (3) path strings: all token strings up to a length, two slider heads
    let max_tokens = tier.pick(6usize, 7usize);
    let mut per = Vec::new();
    for n in 1..=max_tokens {
        let radices = vec![PATH_TOKENS.len() as u64; n];
        let total = product(&radices);
        let a = par_range(total, |idx, acc| {
            let mut d = Vec::new();
            digits(idx, &radices, &mut d);
            let toks: Vec<&str> = d.iter().map(|&i| PATH_TOKENS[i]).collect();
            acc.states += 1;
            let line = format!("100,200,1000,2,0,{},1,100", toks.join("|"));
            check_line(&line, &[0, 1], &modes[..1], acc);
            if n <= 5 {
                // head elsewhere: relative offsets negative, fractional head
                let line = format!("150.7,250.2,1000,6,0,{},2", toks.join("|"));
                check_line(&line, &[2], &modes[1..], acc);
            }
        });
        per.push(json!({"tokens": n, "strings": total}));
        acc = acc.merge(a);
    }
    bounds.insert("path_strings".into(), json!({"alphabet": PATH_TOKENS, "per_len": per}));

    // (3b) number classes as head and path coordinates (precision, limits, notation)
    let coords: Vec<&str> = NUMS
        .iter()
        .copied()
        .chain([
            "199.99999999", "-0.99999999", "100000.999", "131072.001", "131071.99999", "-131072", "131072.5", "16777217", "1e2", ".5", "5.",
            "-0", "0.1e1", "1e-400", "99.5",
        ])
        .collect();
    let nc = coords.len() as u64;
    let a = par_range(nc * nc, |idx, acc| {
        let (a, b) = (coords[(idx / nc) as usize], coords[(idx % nc) as usize]);
        acc.states += 1;
        check_line(&format!("100,200,1000,2,0,L|{a}:{b}|300:300,1,100"), &[0], &modes[..1], acc);
        check_line(&format!("100,200,1000,2,0,B|150:150|{a}:{b},1,100"), &[0], &modes[1..], acc);
        check_line(&format!("{a},{b},1000,2,0,P|150:150|300:300,1,100"), &[0], &modes[..1], acc);
        check_line(&format!("{a},{b},1000,1,0"), &[0, 2], &modes[..1], acc);
    });
    acc = acc.merge(a);
    bounds.insert("coordinate_classes".into(), json!({"values": coords.len(), "pairs": nc * nc, "shapes": 4}));

    // (4) node sound / bank lists against repeat counts
    let node_sounds = ["", "2", "2|4", "2|4|8", "2|4|8|14", "x|2", "|", "256|1", "2| 8", " 4 |2"];
    let node_banks = ["", "1:2", "258:1|1:259", "1:2|3:1", "1:2|3:1|0:0", "1:2|x", "1|2", "1:2:3:4|0:0", "0:0|0:0|0:0|2:2"];
    let repeats = ["0", "1", "2", "3", "4", "9000", "9001", "-5"];
    let radices = [node_sounds.len() as u64, node_banks.len() as u64, repeats.len() as u64, 4];
    let a = par_range(product(&radices), |idx, acc| {
        let mut d = Vec::new();
        digits(idx, &radices, &mut d);
        let tail = ["", ",1:2", ",0:3:9:9:x", ",2"][d[3]];
        let line = format!("10,20,500,2,6,L|30:20,{},50,{},{}{}", repeats[d[2]], node_sounds[d[0]], node_banks[d[1]], tail);
        acc.states += 1;
        check_line(&line, &[0, 2], &modes[..1], acc);
    });
    acc = acc.merge(a);
    bounds.insert("node_lists".into(), json!({"node_sounds": node_sounds.len(), "node_banks": node_banks.len(), "repeat_counts": repeats}));

    let summary = Summary {
        rule: "every line of the generators fed to the real HitObjects::parse_hit_objects (fresh state + context lines that make the \
               previous object none/circle/spinner/slider/hold, including mixed-flag type bytes) and compared with an independent \
               reference parser of the legacy grammar on accept/reject and on every field of the raw object (position truncation, \
               kind precedence, combo flag/offset, forced new combo, repeat count, node count, requested length, durations, control \
               points with types, samples). (1) 256 type bytes x 256 sound bytes; (2) baselines with <= 2/3 deviating fields from a \
               33-value menu and all truncations; (3) all path token strings of <= 6/7 tokens over 16 tokens, every pair of 36 number classes as head and as path coordinates; (4) node lists x repeat \
               counts. states = lines, evaluations = (line, context, mode) runs; distinct_nontrivial = distinct accepted objects"
            .into(),
        bounds: Value::Object(bounds),
        exhaustive: true,
        caps_hit: vec![],
        assumptions: vec![
            "number grammar = Rust std's FromStr plus the stated limits".into(),
            "field values limited to the menus; Mode only influences the SliderPath mode (not observable in the raw object)".into(),
        ],
    };
    finish(&run, acc, summary)
}
