//! C02 — decode -> encode -> decode returns the same map (on what the format
//! carries); C04 — the encoder only emits text its own decoder accepts.
//! E1 over bounded-deviation files, dense path-string / timing / sample
//! products and (C04) hostile and non-chronological inputs.

use rosu_map::{
    section::{
        general::GameMode,
        hit_objects::{hit_samples::HitSampleInfo, HitObjectKind, SplineType},
        timing_points::ControlPoints,
        Section,
    },
    Beatmap, DecodeBeatmap, DecodeState,
};
use serde_json::{json, Value};

use super::gen::{at_time, baseline, record_alphabet, FileSpec, SECTION_NAMES};
use crate::engine::{digits, finish, guarded, hex, par_range, product, run_witnesses, unhex, Acc, Run, Summary, Tier, Violation};

// ---------------------------------------------------------------------------
// comparison of what the format carries

fn ulp_close(a: f64, b: f64) -> bool {
    a == b || (a - b).abs() <= 8.0 * f64::EPSILON * a.abs().max(b.abs())
}

fn at<T>(v: &[T], t: f64, time: impl Fn(&T) -> f64) -> Option<&T> {
    let mut r = None;
    for p in v {
        if time(p) <= t {
            r = Some(p);
        }
    }
    r
}

fn sample_names(v: &[HitSampleInfo]) -> Vec<(String, i32)> {
    v.iter().map(|s| (format!("{:?}", s.name), s.bank as i32)).collect()
}

/// True if the map contains what the statement excludes from the claim.
pub fn excluded_shape(m: &Beatmap) -> bool {
    // consecutive explicit Catmull segments
    m.hit_objects.iter().any(|h| match &h.kind {
        HitObjectKind::Slider(s) => {
            let typed: Vec<_> = s.path.control_points().iter().filter_map(|p| p.path_type).collect();
            typed.windows(2).any(|w| w[0].kind == SplineType::Catmull && w[1].kind == SplineType::Catmull)
        }
        _ => false,
    })
}

/// Differences between M1 and M2 = decode(encode(M1)) as (class, message).
pub fn compare(m1: &mut Beatmap, m2: &mut Beatmap) -> Vec<(String, String)> {
    let mut d: Vec<(String, String)> = Vec::new();
    macro_rules! f {
        ($class:expr; $($x:ident),*) => { $(
            if format!("{:?}", m1.$x) != format!("{:?}", m2.$x) {
                d.push(($class.to_string(), format!("{}: {:?} -> {:?}", stringify!($x), m1.$x, m2.$x)));
            }
        )* };
    }
    f!("general"; audio_file, audio_lead_in, preview_time, stack_leniency, mode, letterbox_in_breaks, widescreen_storyboard,
        epilepsy_warning, samples_match_playback_rate, countdown);
    f!("editor"; bookmarks, distance_spacing, beat_divisor, grid_size, timeline_zoom);
    f!("metadata"; title, title_unicode, artist, artist_unicode, creator, version, source, tags);
    f!("difficulty"; hp_drain_rate, circle_size, overall_difficulty, approach_rate, slider_multiplier, slider_tick_rate);
    f!("events"; background_file, breaks);
    f!("colours"; custom_combo_colors, custom_colors);
    if m1.countdown_offset > 0 && m1.countdown_offset != m2.countdown_offset {
        d.push(("general".into(), format!("countdown_offset: {} -> {}", m1.countdown_offset, m2.countdown_offset)));
    }
    if m1.mode == GameMode::Mania && m1.special_style != m2.special_style {
        d.push(("general".into(), format!("special_style: {} -> {}", m1.special_style, m2.special_style)));
    }
    if m1.beatmap_id > 0 && m1.beatmap_id != m2.beatmap_id {
        d.push(("metadata-ids".into(), format!("beatmap_id: {} -> {}", m1.beatmap_id, m2.beatmap_id)));
    }
    if m1.beatmap_set_id > 0 && m1.beatmap_set_id != m2.beatmap_set_id {
        d.push(("metadata-ids".into(), format!("beatmap_set_id: {} -> {}", m1.beatmap_set_id, m2.beatmap_set_id)));
    }
    let (c1, c2) = (&m1.control_points, &m2.control_points);
    if c1.timing_points != c2.timing_points {
        d.push(("timing-points".into(), format!("timing points: {:?} -> {:?}", c1.timing_points, c2.timing_points)));
    }
    // effective timelines at every control point time +-1
    let mut probes: Vec<f64> = Vec::new();
    for c in [c1, c2] {
        for t in c
            .difficulty_points
            .iter()
            .map(|p| p.time)
            .chain(c.effect_points.iter().map(|p| p.time))
            .chain(c.timing_points.iter().map(|p| p.time))
        {
            probes.extend([t - 1.0, t, t + 1.0]);
        }
    }
    let scrolling = matches!(m1.mode, GameMode::Taiko | GameMode::Mania);
    for t in probes {
        let sv = |c: &ControlPoints| at(&c.difficulty_points, t, |p| p.time).map_or(1.0, |p| p.slider_velocity);
        let ef = |c: &ControlPoints| at(&c.effect_points, t, |p| p.time).map_or((false, 1.0), |p| (p.kiai, p.scroll_speed));
        if !ulp_close(sv(c1), sv(c2)) {
            d.push(("sv-timeline".into(), format!("slider velocity at {t}: {} -> {}", sv(c1), sv(c2))));
            break;
        }
        let (e1, e2) = (ef(c1), ef(c2));
        if e1.0 != e2.0 {
            d.push(("kiai-timeline".into(), format!("kiai at {t}: {} -> {}", e1.0, e2.0)));
            break;
        }
        if scrolling && !ulp_close(e1.1, e2.1) {
            d.push(("scroll-timeline".into(), format!("scroll speed at {t}: {} -> {}", e1.1, e2.1)));
            break;
        }
    }
    if m1.hit_objects.len() != m2.hit_objects.len() {
        d.push(("hit-object-count".into(), format!("{} hit objects -> {}", m1.hit_objects.len(), m2.hit_objects.len())));
        return d;
    }
    for (i, (a, b)) in m1.hit_objects.iter_mut().zip(m2.hit_objects.iter_mut()).enumerate() {
        if a.start_time != b.start_time {
            d.push(("hit-object".into(), format!("object {i} start {} -> {}", a.start_time, b.start_time)));
        }
        if sample_names(&a.samples) != sample_names(&b.samples) {
            d.push(("samples".into(), format!("object {i} samples {:?} -> {:?}", sample_names(&a.samples), sample_names(&b.samples))));
        }
        match (&mut a.kind, &mut b.kind) {
            (HitObjectKind::Circle(x), HitObjectKind::Circle(y)) => {
                if x != y {
                    d.push(("hit-object".into(), format!("object {i}: {x:?} -> {y:?}")));
                }
            }
            (HitObjectKind::Spinner(x), HitObjectKind::Spinner(y)) => {
                if x != y {
                    d.push(("hit-object".into(), format!("object {i}: {x:?} -> {y:?}")));
                }
            }
            (HitObjectKind::Hold(x), HitObjectKind::Hold(y)) => {
                if x != y {
                    d.push(("hit-object".into(), format!("object {i}: {x:?} -> {y:?}")));
                }
            }
            (HitObjectKind::Slider(x), HitObjectKind::Slider(y)) => {
                if (x.pos, x.new_combo, x.combo_offset, x.repeat_count) != (y.pos, y.new_combo, y.combo_offset, y.repeat_count) {
                    d.push(("hit-object".into(), format!("slider {i}: pos/combo/repeats {:?} -> {:?}", (x.pos, x.new_combo, x.combo_offset, x.repeat_count), (y.pos, y.new_combo, y.combo_offset, y.repeat_count))));
                }
                if !super::gen::same_control_points(x.path.control_points(), y.path.control_points()) {
                    d.push(("slider-control-points".into(), format!("slider {i}: {:?} -> {:?}", x.path.control_points(), y.path.control_points())));
                }
                if !ulp_close(x.velocity, y.velocity) {
                    d.push(("slider-velocity".into(), format!("slider {i}: velocity {} -> {}", x.velocity, y.velocity)));
                }
                if x.path.expected_dist().is_some() && x.path.expected_dist() != y.path.expected_dist() {
                    d.push(("slider-length".into(), format!("slider {i}: requested length {:?} -> {:?}", x.path.expected_dist(), y.path.expected_dist())));
                }
                if x.node_samples.len() != y.node_samples.len() {
                    d.push(("node-count".into(), format!("slider {i}: {} node sample sets -> {}", x.node_samples.len(), y.node_samples.len())));
                } else if x.node_samples.iter().zip(&y.node_samples).any(|(p, q)| sample_names(p) != sample_names(q)) {
                    d.push((
                        "node-samples".into(),
                        format!(
                            "slider {i}: node samples {:?} -> {:?}",
                            x.node_samples.iter().map(|n| sample_names(n)).collect::<Vec<_>>(),
                            y.node_samples.iter().map(|n| sample_names(n)).collect::<Vec<_>>()
                        ),
                    ));
                }
                let (k1, k2) = (x.path.curve().clone(), y.path.curve().clone());
                let same = k1.path().len() == k2.path().len()
                    && k1.path().iter().zip(k2.path()).all(|(p, q)| p.x.to_bits() == q.x.to_bits() && p.y.to_bits() == q.y.to_bits())
                    && k1.lengths().iter().zip(k2.lengths()).all(|(p, q)| p.to_bits() == q.to_bits())
                    && k1.lengths().len() == k2.lengths().len();
                if !same {
                    d.push(("slider-curve".into(), format!("slider {i}: computed curve differs (dist {} -> {})", k1.dist(), k2.dist())));
                }
            }
            (x, y) => d.push(("hit-object-kind".into(), format!("object {i}: {x:?} -> {y:?}"))),
        }
    }
    d
}

/// Narrow classifiers of the recorded findings.
fn known_class(m1: &mut Beatmap, text: &str, class: &str, msg: &str) -> Option<&'static str> {
    if (class == "general" && msg.starts_with("audio_file") && m1.audio_file.contains("//"))
        || (class == "events" && msg.starts_with("background_file") && m1.background_file.contains("//"))
    {
        return Some("file-name-containing-double-slash");
    }
    if class == "hit-object-count" {
        let over = m1.hit_objects.iter_mut().any(|h| match &mut h.kind {
            HitObjectKind::Slider(s) => s.path.expected_dist().is_none() && s.path.curve().dist() > 131_072.0,
            _ => false,
        });
        if over {
            return Some("natural-length-slider-longer-than-the-parse-limit");
        }
        // a spinner / hold ending exactly at the limit: the encoder writes start + duration, which can round above it
        let end_over = m1.hit_objects.iter().any(|h| match &h.kind {
            HitObjectKind::Spinner(s) => h.start_time + s.duration > 2_147_483_647.0,
            HitObjectKind::Hold(s) => h.start_time + s.duration > 2_147_483_647.0,
            _ => false,
        });
        if end_over {
            return Some("end-time-beyond-the-parse-limit");
        }
    }
    // scroll speed exists only in taiko / mania and is decided when a timing line is parsed: a `Mode` record that
    // follows a timing line comes too late for it (the encoder writes [General] first, so the second decode differs)
    if class == "scroll-timeline" && matches!(m1.mode, GameMode::Taiko | GameMode::Mania) {
        let mut seen_timing_line = false;
        let mut cur = "";
        for l in text.lines() {
            let l = l.trim_end();
            if let Some(n) = l.strip_prefix('[').and_then(|x| x.strip_suffix(']')) {
                cur = n;
                continue;
            }
            if cur == "TimingPoints" && !l.is_empty() {
                seen_timing_line = true;
            }
            if cur == "General" && seen_timing_line && l.trim_start().starts_with("Mode") {
                return Some("mode-declared-after-timing-points");
            }
        }
    }
    None
}

fn case_text(text: &str) -> Value {
    json!({"kind": "text", "hex": hex(text.as_bytes())})
}

pub fn chronological(m: &Beatmap, text: &str) -> bool {
    // timing-point and hit-object lines of the INPUT in non-decreasing time order
    let mut cur = "";
    let mut last_t = f64::NEG_INFINITY;
    let mut last_o = f64::NEG_INFINITY;
    for l in text.lines() {
        let l = l.trim_end();
        if let Some(n) = l.strip_prefix('[').and_then(|x| x.strip_suffix(']')) {
            cur = n;
            continue;
        }
        let f: Vec<&str> = l.split(',').collect();
        if cur == "TimingPoints" {
            if let Some(t) = f.first().and_then(|t| t.trim().parse::<f64>().ok()) {
                if t < last_t {
                    return false;
                }
                last_t = t;
            }
        } else if cur == "HitObjects" {
            if let Some(t) = f.get(2).and_then(|t| t.trim().parse::<f64>().ok()) {
                if t < last_o {
                    return false;
                }
                last_o = t;
            }
        }
    }
    let _ = m;
    true
}

pub fn check_c02(text: &str, acc: &mut Acc) {
    let _g = crate::engine::watch::bytes_guard(text.as_bytes());
    acc.evals += 1;
    acc.states += 1;
    acc.transitions += 3;
    let r = guarded(|| {
        let mut m1 = rosu_map::from_str::<Beatmap>(text).map_err(|e| format!("decode: {e}"))?;
        if !chronological(&m1, text) || excluded_shape(&m1) {
            return Ok(None);
        }
        let enc = m1.encode_to_string().map_err(|e| format!("encode: {e}"))?;
        let mut m2 = rosu_map::from_str::<Beatmap>(&enc).map_err(|e| format!("second decode: {e}"))?;
        let diffs = compare(&mut m1, &mut m2);
        let classified: Vec<(String, String)> = diffs
            .into_iter()
            .map(|(c, m)| match known_class(&mut m1, text, &c, &m) {
                Some(k) => (k.to_string(), m),
                None => (c, m),
            })
            .collect();
        Ok::<_, String>(Some((classified, m1.hit_objects.len(), enc.len())))
    });
    match r {
        Ok(Ok(Some((diffs, objects, enc_len)))) => {
            for (class, msg) in diffs {
                let msg: String = msg.chars().take(600).collect();
                acc.violation(Violation::new(class, format!("{msg}  [input {:?}]", text.chars().take(300).collect::<String>()), case_text(text)));
            }
            if objects > 0 {
                acc.nontrivial(&(enc_len, crate::engine::hash64(text)));
            }
        }
        Ok(Ok(None)) => acc.count("skipped_not_chronological_or_excluded_shape", 1),
        Ok(Err(e)) => acc.violation(Violation::new("io-error", e, case_text(text))),
        Err(p) => acc.violation(Violation::new("panic", p, case_text(text))),
    }
}

// ---------------------------------------------------------------------------
// C04: line walker over the encoder output

fn parse_line(st: &mut <Beatmap as DecodeBeatmap>::State, sec: &str, line: &str) -> bool {
    match sec {
        "General" => Beatmap::parse_general(st, line).is_ok(),
        "Editor" => Beatmap::parse_editor(st, line).is_ok(),
        "Metadata" => Beatmap::parse_metadata(st, line).is_ok(),
        "Difficulty" => Beatmap::parse_difficulty(st, line).is_ok(),
        "Events" => Beatmap::parse_events(st, line).is_ok(),
        "TimingPoints" => Beatmap::parse_timing_points(st, line).is_ok(),
        "Colours" => Beatmap::parse_colors(st, line).is_ok(),
        _ => Beatmap::parse_hit_objects(st, line).is_ok(),
    }
}

pub fn check_c04(input: &[u8], acc: &mut Acc) {
    let _g = crate::engine::watch::bytes_guard(input);
    acc.evals += 1;
    acc.states += 1;
    let case = || json!({"kind": "bytes", "hex": hex(input)});
    let r = guarded(|| {
        let mut m = rosu_map::from_bytes::<Beatmap>(input).ok()?;
        let enc = m.encode_to_string().ok()?;
        Some((m, enc))
    });
    let Ok(Some((mut m, enc))) = r else { return };
    let viol = |class: &str, msg: String, acc: &mut Acc| {
        acc.violation(Violation::new(class, msg, case()));
    };
    let mut lines = enc.lines();
    let first = lines.next().unwrap_or("");
    if !first.starts_with("osu file format v") || first["osu file format v".len()..].parse::<i32>().is_err() {
        viol("version-line", format!("first line {first:?}"), acc);
    }
    let mut headers: Vec<&str> = Vec::new();
    let mut cur: Option<&str> = None;
    let mut emitted = [0usize; 8];
    let mut hit_lines: Vec<&str> = Vec::new();
    let mut state = <Beatmap as DecodeBeatmap>::State::create(m.format_version);
    for l in lines {
        acc.transitions += 1;
        if l.is_empty() {
            continue;
        }
        if let Some(s) = Section::try_from_line(l) {
            let name = SECTION_NAMES.iter().find(|n| format!("[{n}]") == l).copied().unwrap_or("?");
            let _ = s;
            headers.push(name);
            cur = Some(name);
            continue;
        }
        let Some(sec) = cur else {
            viol("line-before-first-section", format!("{l:?}"), acc);
            continue;
        };
        // no emitted record may be dropped by framing or misread as a header
        if l.trim_end().is_empty() || l.trim_start().starts_with("//") {
            viol("record-dropped-by-framing", format!("[{sec}] emits {l:?}, which the decoder skips"), acc);
            continue;
        }
        // the reader trims trailing whitespace before the parser sees the line
        let l = l.trim_end();
        let si = SECTION_NAMES.iter().position(|n| *n == sec).unwrap_or(0);
        emitted[si] += 1;
        if sec == "HitObjects" {
            hit_lines.push(l);
        }
        if !parse_line(&mut state, sec, l) {
            // narrow classifier of the recorded finding
            let over = sec == "HitObjects"
                && l.split(',').nth(7).and_then(|x| x.parse::<f64>().ok()).is_some_and(|x| x > 131_072.0)
                && m.hit_objects.iter_mut().any(|h| match &mut h.kind {
                    HitObjectKind::Slider(s) => s.path.expected_dist().is_none() && s.path.curve().dist() > 131_072.0,
                    _ => false,
                });
            let late_point = sec == "TimingPoints"
                && l.split(',').next().and_then(|x| x.parse::<f64>().ok()).is_some_and(|t| t.abs() > 2_147_483_647.0);
            let end_over = sec == "HitObjects"
                && l.split(',').nth(3).and_then(|t| t.trim().parse::<i32>().ok()).is_some_and(|t| t & 3 == 0 && t & (8 | 128) != 0)
                && l.split(',').nth(5).and_then(|x| x.split(':').next()).and_then(|x| x.parse::<f64>().ok()).is_some_and(|e| e > 2_147_483_647.0 && e < 2_147_483_648.0);
            let class = if over {
                "natural-length-slider-longer-than-the-parse-limit"
            } else if end_over {
                "end-time-beyond-the-parse-limit"
            } else if late_point {
                "control-point-time-beyond-the-parse-limit"
            } else {
                "emitted-line-rejected"
            };
            viol(class, format!("[{sec}] emitted line {l:?} is rejected by the section parser"), acc);
        }
    }
    if headers != SECTION_NAMES {
        viol("section-headers", format!("headers {headers:?}, expected each of {SECTION_NAMES:?} once in this order"), acc);
    }
    // read back: as many objects / breaks / colours as were emitted, each hit-object line an object of the same kind and time
    let back: Beatmap = state.into();
    let mut again = match guarded(|| rosu_map::from_str::<Beatmap>(&enc)) {
        Ok(Ok(b)) => b,
        _ => return,
    };
    if format!("{again:?}") != format!("{back:?}") {
        viol("walker-disagrees-with-decoder", "feeding the emitted lines to the section parsers gives a different map than decoding the text".into(), acc);
    }
    let rejected_hit = hit_lines.len() != again.hit_objects.len();
    if rejected_hit
        && !acc.viols.contains_key("emitted-line-rejected")
        && !acc.viols.contains_key("natural-length-slider-longer-than-the-parse-limit")
        && !acc.viols.contains_key("end-time-beyond-the-parse-limit")
    {
        viol("hit-object-dropped", format!("{} hit-object lines emitted, {} objects read back", hit_lines.len(), again.hit_objects.len()), acc);
    }
    if !rejected_hit {
        // the k-th emitted line describes the k-th object of the encoded map (kind and start time)
        for (k, (l, h)) in hit_lines.iter().zip(m.hit_objects.iter()).enumerate() {
            let f: Vec<&str> = l.split(',').collect();
            let ty: i32 = f.get(3).and_then(|t| t.parse().ok()).unwrap_or(0);
            let kind_ok = match h.kind {
                HitObjectKind::Circle(_) => ty & 1 != 0,
                HitObjectKind::Slider(_) => ty & 1 == 0 && ty & 2 != 0,
                HitObjectKind::Spinner(_) => ty & 3 == 0 && ty & 8 != 0,
                HitObjectKind::Hold(_) => ty & 11 == 0 && ty & 128 != 0,
            };
            let time_ok = f.get(2).and_then(|t| t.parse::<f64>().ok()).is_some_and(|t| t.to_bits() == h.start_time.to_bits() || t == h.start_time);
            if !kind_ok || !time_ok {
                viol("record-misread", format!("hit-object line {k} {l:?} does not describe object {:?} at {}", std::mem::discriminant(&h.kind), h.start_time), acc);
                break;
            }
        }
        let same_kinds = again.hit_objects.len() == m.hit_objects.len();
        let _ = same_kinds;
    }
    if emitted[4] != usize::from(!m.background_file.is_empty()) + m.breaks.len() {
        viol("events-count", format!("{} event lines for {} breaks", emitted[4], m.breaks.len()), acc);
    }
    if again.breaks.len() != m.breaks.len() || again.custom_combo_colors.len() != m.custom_combo_colors.len() {
        viol("record-dropped", format!("breaks {} -> {}, combo colours {} -> {}", m.breaks.len(), again.breaks.len(), m.custom_combo_colors.len(), again.custom_combo_colors.len()), acc);
    }
    // the background event line is read back as the same background
    if again.background_file != m.background_file {
        let class = if m.background_file.contains("//") { "file-name-containing-double-slash" } else { "record-misread" };
        viol(class, format!("background {:?} is written as an event line that reads back as {:?}", m.background_file, again.background_file), acc);
    }
    let _ = &mut again;
    if !m.hit_objects.is_empty() || !m.control_points.timing_points.is_empty() {
        acc.nontrivial(&crate::engine::hash64(&enc));
    }
}

// ---------------------------------------------------------------------------
// generators

/// time of a timing / hit-object record of the baseline
fn rec_time(section: &str, rec: &str) -> i64 {
    let f: Vec<&str> = rec.split(',').collect();
    let s = if section == "HitObjects" { f.get(2) } else { f.first() };
    s.and_then(|x| x.trim().parse::<f64>().ok()).map_or(0, |x| x as i64)
}

/// all single deviations of a spec: (section idx, op, position, alphabet idx)
fn deviations(spec: &FileSpec) -> Vec<(usize, u8, usize, usize)> {
    let mut v = Vec::new();
    for (si, (name, recs)) in spec.sections.iter().enumerate() {
        let alpha = record_alphabet(name).len();
        for p in 0..recs.len() {
            v.push((si, 0u8, p, 0)); // delete
            for a in 0..alpha {
                v.push((si, 1, p, a)); // replace
                v.push((si, 2, p, a)); // insert before
            }
        }
        for a in 0..alpha {
            v.push((si, 2, recs.len(), a)); // append
        }
    }
    v
}

fn apply_dev(spec: &mut FileSpec, dev: (usize, u8, usize, usize)) {
    let (si, op, p, a) = dev;
    let name = spec.sections[si].0;
    let alpha = record_alphabet(name);
    let recs = &mut spec.sections[si].1;
    let timed = name == "TimingPoints" || name == "HitObjects";
    match op {
        0 => {
            if p < recs.len() {
                recs.remove(p);
            }
        }
        1 => {
            if p < recs.len() {
                let t = rec_time(name, &recs[p]);
                recs[p] = if timed { at_time(&alpha[a], t) } else { alpha[a].clone() };
            }
        }
        _ => {
            let p = p.min(recs.len());
            let t = if p < recs.len() { rec_time(name, &recs[p]) } else { recs.last().map_or(0, |r| rec_time(name, r) + 1500) };
            let rec = if timed { at_time(&alpha[a], t) } else { alpha[a].clone() };
            recs.insert(p, rec);
        }
    }
}

const PATH_TOKENS: [&str; 12] = ["B", "B3", "L", "P", "C", "100:200", "150:200", "200:200", "150:250", "150:150", "x", ""];
const LEN_CLASSES: [&str; 5] = ["", ",0", ",37.5", ",120", ",900.25"];

const TIMING_MENU: [(i64, &str); 14] = [
    (0, "500,4,1,0,100,1,0"),
    (0, "-50,4,2,1,60,0,1"),
    (0, "333.33,3,2,1,60,1,9"),
    (1000, "-30,4,1,0,100,0,0"),
    (1000, "-200,4,3,2,30,0,1"),
    (1000, "NaN,4,1,0,100,0,0"),
    (1500, "300,7,3,0,80,1,8"),
    (1500, "-100,4,1,0,100,0,0"),
    (2500, "-1000,4,2,3,5,0,0"),
    (2500, "-5,4,1,0,100,0,1"),
    (3000, "600,4,0,0,100,1,0"),
    (3000, "-77.7,4,1,1,70,0,0"),
    // multipliers below the slider-velocity clamp (0.1) but inside the scroll-speed clamp (0.01) of taiko / mania
    (2000, "-2000,4,1,0,100,0,0"),
    (3500, "-20000,4,1,0,100,0,1"),
];

const OBJECT_MENU: [(i64, &str, &str); 15] = [
    (0, "10,20", "1,0"),
    (0, "10,20", "5,14,2:3:1:50:"),
    (500, "64,64", "21,2,0:0:0:0:file.wav"),
    // a custom sample file whose name begins with a blank: names are kept and written verbatim
    (500, "64,64", "1,2,0:0:0:0: lead.wav"),
    (1000, "100,100", "2,0,B|200:100|200:200,1,150"),
    (1000, "100,100", "6,2,P|150:50|200:100,3,200.25,2|4|8|0,1:2|0:0|3:3|2:1,1:1:0:0:"),
    (1000, "100,100", "2,0,L|100:100|300:100,1,0"),
    (1000, "50,50", "2,8,C|60:70|80:30|120:90,2,90"),
    (1000, "100,100", "2,0,B|150:150|150:150|200:100|L|250:100,1,220"),
    (1000, "100,100", "2,0,B3|150:150|170:120|200:100,1"),
    (2000, "256,192", "12,4,3000,1:0:0:0:"),
    (2000, "64,192", "128,2,2600:1:2:3:40:"),
    (2000, "64,192", "128,0,2600:0:0:0:0:hold.wav"),
    (3500, "300,300", "1,8,0:2"),
    (3500, "1,1", "2,0,L|5:1,1,4"),
];

pub struct TextFamily {
    pub name: &'static str,
    pub total: u64,
    pub gen: Box<dyn Fn(u64) -> String + Send + Sync>,
}

pub fn text_families(tier: Tier) -> Vec<TextFamily> {
    let mut fams = Vec::new();
    // (i) bounded-deviation files
    let ctxs: Vec<(u8, i32)> = vec![(0, 14), (1, 14), (2, 14), (3, 14), (0, 7), (3, 7), (1, 7), (2, 7), (0, 4), (3, 3), (1, 5), (2, 128)];
    let devs = deviations(&baseline(0, 14));
    let nd = devs.len() as u64;
    let nc = ctxs.len() as u64;
    {
        let (devs, ctxs) = (devs.clone(), ctxs.clone());
        fams.push(TextFamily {
            name: "baseline file with one record replaced / inserted / deleted, x mode x version",
            total: (nd + 1) * nc,
            gen: Box::new(move |idx| {
                let (mode, ver) = ctxs[(idx % nc) as usize];
                let k = idx / nc;
                let mut spec = baseline(mode, ver);
                if k > 0 {
                    apply_dev(&mut spec, devs[(k - 1) as usize]);
                }
                spec.text()
            }),
        });
    }
    if tier.thorough() {
        let (devs2, ctxs2) = (devs.clone(), vec![(0u8, 14), (3u8, 14), (1u8, 7), (0u8, 4)]);
        let nc2 = ctxs2.len() as u64;
        fams.push(TextFamily {
            name: "baseline file with two deviations (second applied after the first), x mode x version",
            total: nd * nd * nc2,
            gen: Box::new(move |idx| {
                let (mode, ver) = ctxs2[(idx % nc2) as usize];
                let k = idx / nc2;
                let mut spec = baseline(mode, ver);
                // apply the later position first so indices stay valid
                let (a, b) = (devs2[(k % nd) as usize], devs2[(k / nd) as usize]);
                let (first, second) = if (a.0, a.2) >= (b.0, b.2) { (a, b) } else { (b, a) };
                apply_dev(&mut spec, first);
                apply_dev(&mut spec, second);
                spec.text()
            }),
        });
    }
    // (ii) path strings x length classes
    for n in 1..=tier.pick(4usize, 5usize) {
        let radices: Vec<u64> = std::iter::repeat(PATH_TOKENS.len() as u64).take(n).chain([LEN_CLASSES.len() as u64, 2]).collect();
        let total = product(&radices);
        fams.push(TextFamily {
            name: "slider path token strings x requested-length classes x mode",
            total,
            gen: Box::new(move |idx| {
                let mut d = Vec::new();
                digits(idx, &radices, &mut d);
                let toks: Vec<&str> = d[..n].iter().map(|&i| PATH_TOKENS[i]).collect();
                format!(
                    "osu file format v14\n[General]\nMode: {}\n[TimingPoints]\n0,500,4,1,0,100,1,0\n[HitObjects]\n100,200,1000,2,0,{},2{}\n300,300,3000,1,0\n",
                    [0, 3][d[n + 1]],
                    toks.join("|"),
                    LEN_CLASSES[d[n]]
                )
            }),
        });
    }
    // (ii-b) longer path strings over a reduced token alphabet
    for n in 5..=tier.pick(6usize, 7usize) {
        const SMALL: [&str; 7] = ["B", "L", "C", "P", "100:200", "150:200", "200:200"];
        let radices: Vec<u64> = std::iter::repeat(SMALL.len() as u64).take(n).chain([2]).collect();
        let total = product(&radices);
        fams.push(TextFamily {
            name: "longer slider path token strings over a reduced alphabet (head point, two others, four type letters)",
            total,
            gen: Box::new(move |idx| {
                let mut d = Vec::new();
                digits(idx, &radices, &mut d);
                let toks: Vec<&str> = d[..n].iter().map(|&i| SMALL[i]).collect();
                format!(
                    "osu file format v14\n[General]\nMode: 0\n[TimingPoints]\n0,500,4,1,0,100,1,0\n[HitObjects]\n100,200,1000,2,0,{},1{}\n300,300,3000,1,0\n",
                    toks.join("|"),
                    ["", ",80"][d[n]]
                )
            }),
        });
    }
    // (iii) sorted timing triples x object pairs x modes x versions
    {
        let nt = TIMING_MENU.len() as u64;
        let no = OBJECT_MENU.len() as u64;
        let ctx: Vec<(u8, i32)> = if tier.thorough() { vec![(0, 14), (1, 14), (2, 14), (3, 14), (0, 7), (3, 7), (0, 4), (2, 3)] } else { vec![(0, 14), (3, 14), (1, 7), (0, 4)] };
        let radices = vec![nt, nt, nt, no, no, ctx.len() as u64];
        fams.push(TextFamily {
            name: "chronological timing-line triples x object pairs x mode x version",
            total: product(&radices),
            gen: Box::new(move |idx| {
                let mut d = Vec::new();
                digits(idx, &radices, &mut d);
                let mut ts: Vec<usize> = d[..3].to_vec();
                ts.sort_unstable();
                ts.dedup();
                let mut os: Vec<usize> = d[3..5].to_vec();
                os.sort_unstable();
                os.dedup();
                let (mode, ver) = ctx[d[5]];
                let mut s = format!("osu file format v{ver}\n[General]\nMode: {mode}\n[Difficulty]\nSliderMultiplier:1.7\nSliderTickRate:2\n[TimingPoints]\n");
                for t in ts {
                    s.push_str(&format!("{},{}\n", TIMING_MENU[t].0, TIMING_MENU[t].1));
                }
                s.push_str("[HitObjects]\n");
                for o in os {
                    let (t, p, r) = OBJECT_MENU[o];
                    s.push_str(&format!("{p},{t},{r}\n"));
                }
                s
            }),
        });
    }
    // (iv) sound byte x extras shapes x node counts x modes
    {
        let extras = ["", "0:0:0:0:", "1:2:0:0:", "2:0:3:40:", "3:1:0:0:f.wav", "0:3:2:120:", "1:2:0:0:f.wav", "0:3:0:50:g.wav", "0:0:0:0:f.wav"];
        let radices = vec![16, extras.len() as u64, 4, 4];
        fams.push(TextFamily {
            name: "hit-sound byte x extras shape x repeat count x mode (circle, slider with node samples, hold)",
            total: product(&radices),
            gen: Box::new(move |idx| {
                let mut d = Vec::new();
                digits(idx, &radices, &mut d);
                let (s, e, rep, mode) = (d[0], extras[d[1]], d[2] + 1, d[3]);
                let node_sounds: Vec<String> = (0..=rep).map(|i| ((s + i) % 16).to_string()).collect();
                let node_banks: Vec<String> = (0..=rep).map(|i| format!("{}:{}", (i + d[1]) % 4, (i * 2 + s) % 4)).collect();
                format!(
                    "osu file format v14\n[General]\nMode: {mode}\n[TimingPoints]\n0,500,4,2,1,60,1,0\n[HitObjects]\n10,20,0,1,{s}{}{e}\n100,100,1000,2,{s},L|200:100,{rep},100,{},{}{}{e}\n64,192,5000,128,{s},5400:{}\n",
                    if e.is_empty() { "" } else { "," },
                    node_sounds.join("|"),
                    node_banks.join("|"),
                    if e.is_empty() { "" } else { "," },
                    if e.is_empty() { "0:0:0:0:" } else { e },
                )
            }),
        });
    }
    // (v) the same sections in every order (the mode may be declared after the lines it governs), [General] twice
    {
        let radices = vec![24u64, 4, 4, 2];
        fams.push(TextFamily {
            name: "four sections (General/Mode, Difficulty, TimingPoints, HitObjects) in every order x mode x an earlier [General] with another mode x version",
            total: product(&radices),
            gen: Box::new(move |idx| {
                let mut d = Vec::new();
                digits(idx, &radices, &mut d);
                let (mode, first_mode, ver) = (d[1], d[2], [14, 7][d[3]]);
                let blocks = [
                    format!("[General]\nMode: {mode}\nSampleSet: Soft\n"),
                    "[Difficulty]\nSliderMultiplier:1.7\nSliderTickRate:2\n".to_string(),
                    "[TimingPoints]\n0,500,4,1,0,100,1,0\n1000,-50,4,2,0,60,0,1\n2500,-200,4\n".to_string(),
                    "[HitObjects]\n100,100,1000,2,0,C|200:100|200:200|300:300,1,250\n100,100,3000,2,0,B|200:100|200:200,2,150\n64,192,5000,128,0,5400:0:0:0:0:\n256,192,6000,12,0,7000\n".to_string(),
                ];
                // d[0]-th permutation of the four blocks
                let mut rest: Vec<usize> = vec![0, 1, 2, 3];
                let mut k = d[0];
                let mut order = Vec::new();
                for f in [6usize, 2, 1, 1] {
                    order.push(rest.remove(k / f));
                    k %= f;
                }
                let mut s = format!("osu file format v{ver}\n");
                if first_mode != mode {
                    s.push_str(&format!("[General]\nMode: {first_mode}\n"));
                }
                for i in order {
                    s.push_str(&blocks[i]);
                }
                s
            }),
        });
    }
    // (vi) colour lists: 0..12 combo colours given through repeated and numbered keys, with and without custom colours
    {
        fams.push(TextFamily {
            name: "[Colours] with 0..12 combo colours (repeated keys) x custom colours x a second [Colours] section",
            total: 13 * 2 * 2,
            gen: Box::new(move |idx| {
                let (n, custom, split) = ((idx % 13) as usize, (idx / 13) % 2 == 1, idx / 26 == 1);
                let mut s = String::from("osu file format v14\n[General]\nMode: 0\n[Colours]\n");
                for k in 0..n {
                    if split && k == n / 2 {
                        s.push_str("[Metadata]\nTitle:t\n[Colours]\n");
                    }
                    s.push_str(&format!("Combo{} : {},{},{}\n", 1 + k % 5, 10 * k, 255 - 3 * k, k));
                }
                if custom {
                    s.push_str("SliderBorder : 1,2,3\nCombo : 7,7,7\nOther : 9,8,7\n");
                }
                s.push_str("[HitObjects]\n10,20,100,1,0\n");
                s
            }),
        });
    }
    // bundled files
    {
        let files: Vec<String> = crate::env::bundled_files().into_iter().map(|(_, b)| crate::env::text_of(&b)).collect();
        fams.push(TextFamily {
            name: "bundled files",
            total: files.len() as u64,
            gen: Box::new(move |idx| files[idx as usize].clone()),
        });
    }
    fams
}

pub fn replay(case: &Value) -> Vec<Violation> {
    let bytes = unhex(case["hex"].as_str().unwrap_or(""));
    let mut acc = Acc::new();
    check_c02(&String::from_utf8_lossy(&bytes), &mut acc);
    acc.viols.into_values().flatten().collect()
}

fn to_path_dir() -> std::path::PathBuf {
    let dir = std::env::temp_dir().join(format!("rmc-c04-{}", std::process::id()));
    let _ = std::fs::create_dir_all(&dir);
    dir
}

/// encode_to_path over a path that already holds `prior` content: the file afterwards is exactly the encoding
fn check_to_path(text: &str, prior: u64, idx: u64, dir: &std::path::Path, acc: &mut Acc) {
    acc.evals += 1;
    acc.states += 1;
    let Ok(mut m) = rosu_map::from_str::<Beatmap>(text) else { return };
    let Ok(want) = m.encode_to_string() else { return };
    let path = dir.join(format!("f{idx}.osu"));
    let old: Option<Vec<u8>> = match prior {
        0 => None,
        1 => Some(Vec::new()),
        2 => Some(b"osu file format v14\n\n[HitObjects]\n1,2,3,1,0\n".to_vec()),
        3 => Some(std::iter::repeat(&b"256,192,99999,1,0,0:0:0:0:\n"[..]).take(want.len() / 27 + 40).flatten().copied().collect()),
        _ => Some(format!("{want}[HitObjects]\n9,9,999999,1,0\n").into_bytes()),
    };
    match &old {
        None => {
            let _ = std::fs::remove_file(&path);
        }
        Some(b) => {
            let _ = std::fs::write(&path, b);
        }
    }
    let r = guarded(|| m.encode_to_path(&path));
    let got = std::fs::read(&path).unwrap_or_default();
    let _ = std::fs::remove_file(&path);
    acc.transitions += 1;
    let case = json!({"kind": "encode_to_path", "hex": hex(text.as_bytes()), "prior": prior});
    match r {
        Ok(Ok(())) => {
            if got != want.as_bytes() {
                let common = got.iter().zip(want.as_bytes()).take_while(|(a, b)| a == b).count();
                acc.violation(Violation::new(
                    "file-at-path-differs-from-encoding",
                    format!("encode_to_path over prior content class {prior}: file has {} bytes, encoding {} bytes, first difference at {common}", got.len(), want.len()),
                    case,
                ));
            } else {
                acc.nontrivial(&(idx, crate::engine::hash64(&want)));
            }
        }
        Ok(Err(e)) => acc.violation(Violation::new("encode-to-path-failed", format!("{e}"), case)),
        Err(p) => acc.violation(Violation::new("panic", p, case)),
    }
}

pub fn replay_c04(case: &Value) -> Vec<Violation> {
    let bytes = unhex(case["hex"].as_str().unwrap_or(""));
    let mut acc = Acc::new();
    if case["kind"] == "encode_to_path" {
        let dir = to_path_dir();
        check_to_path(&String::from_utf8_lossy(&bytes), case["prior"].as_u64().unwrap_or(3), 0, &dir, &mut acc);
        let _ = std::fs::remove_dir_all(&dir);
        return acc.viols.into_values().flatten().collect();
    }
    check_c04(&bytes, &mut acc);
    acc.viols.into_values().flatten().collect()
}

pub fn run(tier: Tier) -> i32 {
    let run = Run::new("C02", tier, "model_checking");
    let mut acc = Acc::new();
    run_witnesses("C02", &mut acc, &replay);
    let fams = text_families(tier);
    let mut bounds = Vec::new();
    for fam in &fams {
        let t0 = std::time::Instant::now();
        let a = par_range(fam.total, |idx, acc| {
            let text = (fam.gen)(idx);
            check_c02(&text, acc);
            if idx % 90_001 == 13 {
                acc.sample(|| json!({"family": fam.name, "input": text.chars().take(400).collect::<String>()}));
            }
        });
        bounds.push(json!({"family": fam.name, "inputs": fam.total, "wall_s": t0.elapsed().as_secs_f64()}));
        acc = acc.merge(a);
    }
    let summary = Summary {
        rule: "every input of the families (full-featured baseline file per mode/version with one (thorough: two) record replaced / \
               inserted / deleted from per-section alphabets incl. boundary and hostile-but-accepted values, chronological order kept; \
               all slider path token strings up to 4/5 tokens x requested-length classes; chronological timing-line triples x object \
               pairs x modes x versions; hit-sound byte x extras x node counts; four sections in every order x modes; bundled files): M1 = decode(x), M2 = decode(encode(M1)) \
               compared field by field exactly as the statement lists (SV-derived quantities to 8 ulp; requested length only if M1 has \
               one; excluded fields excluded). Inputs that are not chronological or contain consecutive explicit Catmull segments are \
               counted and skipped. distinct_nontrivial = distinct inputs with at least one hit object"
            .into(),
        bounds: json!({"families": bounds}),
        exhaustive: true,
        caps_hit: vec![],
        assumptions: vec![
            "slider velocity and quantities derived from it compared to 8 ulp (decimal text of -100/SV, DESIGN section 7)".into(),
            "field list and exclusions exactly as in the statement".into(),
        ],
    };
    finish(&run, acc, summary)
}

pub fn run_c04(tier: Tier) -> i32 {
    let run = Run::new("C04", tier, "model_checking");
    let mut acc = Acc::new();
    run_witnesses("C04", &mut acc, &replay_c04);
    let mut bounds = Vec::new();
    for fam in &text_families(tier) {
        let a = par_range(fam.total, |idx, acc| {
            let text = (fam.gen)(idx);
            check_c04(text.as_bytes(), acc);
            if idx % 90_001 == 13 {
                acc.sample(|| json!({"family": fam.name, "input": text.chars().take(300).collect::<String>()}));
            }
        });
        bounds.push(json!({"family": fam.name, "inputs": fam.total}));
        acc = acc.merge(a);
    }
    // hostile and non-chronological inputs: the C01 families
    for fam in super::c01::families_for_c04(tier).iter() {
        let a = par_range(fam.total, |idx, acc| {
            let bytes = (fam.gen)(idx);
            check_c04(&bytes, acc);
        });
        bounds.push(json!({"family": fam.name, "inputs": fam.total}));
        acc = acc.merge(a);
    }
    // encode_to_path: the file that ends up at the path is exactly the encoding, whatever the path held before
    {
        let mut texts: Vec<String> = crate::env::bundled_files().into_iter().map(|(_, b)| crate::env::text_of(&b)).collect();
        texts.push(baseline(0, 14).text());
        texts.push(baseline(3, 7).text());
        let dir = to_path_dir();
        let n_prior = 5u64;
        let a = par_range(texts.len() as u64 * n_prior, |idx, acc| {
            check_to_path(&texts[(idx / n_prior) as usize], idx % n_prior, idx, &dir, acc);
        });
        let _ = std::fs::remove_dir_all(&dir);
        bounds.push(json!({"family": "encode_to_path over {no file, empty, shorter, longer junk, own encoding + extra lines} x {bundled files, two baselines}", "inputs": texts.len() as u64 * n_prior}));
        acc = acc.merge(a);
    }
    let summary = Summary {
        rule: "for every map decoded from the C02 families and from the C01 families (hostile, non-chronological, truncated, spliced \
               inputs) the encoded text is walked line by line: version line first; the eight headers exactly once in canonical order; \
               every non-blank line inside a section is fed to that section's public parser on one running state and must be accepted; no \
               emitted record is blank, a comment or whitespace-padded; the walked state equals the decoded text; as many objects, \
               breaks and colours are read back as were emitted, each hit-object line describing the object of the same kind and time; \
               encode_to_path leaves exactly the encoding at the path whatever the path held before. \
               distinct_nontrivial = distinct encodings of maps with objects or timing points"
            .into(),
        bounds: json!({"families": bounds}),
        exhaustive: true,
        caps_hit: vec![],
        assumptions: vec!["acceptance oracle = the public parse_* functions of Beatmap".into()],
    };
    finish(&run, acc, summary)
}
