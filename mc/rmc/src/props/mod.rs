pub mod c12;
pub mod c13;
pub mod c20;
