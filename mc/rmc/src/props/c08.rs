//! C08 — the result depends on the bytes only, not on how they are delivered.
//! E1 as I/O scheduler: (A) all chunk schedules (+ bounded Interrupted
//! answers) for every short file over a BOM/LF alphabet through the choice
//! tree explorer; (B) bounded deviations (cuts / interrupts) on real files in
//! all four encodings; (C) fixed chunk sizes, BufReader capacities and entry
//! points.

use std::io::{BufReader, Cursor};

use rosu_map::{Beatmap, DecodeBeatmap};
use serde_json::{json, Value};

use crate::{
    engine::{
        finish, guarded, hex, par_items, par_range, run_witnesses, show_bytes, tree, unhex, Acc, Run, Summary, Tier,
        Violation,
    },
    env::{bundled_files, encode_text, text_of, CutReader, SchedReader, Trace, ENCS},
};

fn baseline(bytes: &[u8]) -> Result<Trace, String> {
    let _g = crate::engine::watch::bytes_guard(bytes);
    match guarded(|| rosu_map::from_bytes::<Trace>(bytes)) {
        Ok(Ok(t)) => Ok(t),
        Ok(Err(e)) => Err(format!("Err({:?})", e.kind())),
        Err(p) => Err(format!("panic: {p}")),
    }
}

fn case_cuts(bytes: &[u8], cuts: &[usize], interrupts: &[usize]) -> Value {
    json!({"kind": "cuts", "hex": hex(bytes), "cuts": cuts, "interrupts": interrupts})
}

fn classify(bytes: &[u8], first_chunk: usize) -> &'static str {
    let _ = bytes;
    if first_chunk < 3 && first_chunk < bytes.len() {
        "first-chunk-shorter-than-bom"
    } else {
        "schedule-dependent"
    }
}

fn run_cuts(bytes: &[u8], cuts: &[usize], interrupts: &[usize]) -> Result<Trace, String> {
    let _g = crate::engine::watch::bytes_guard(bytes);
    match guarded(|| Trace::decode(CutReader::new(bytes, cuts, interrupts))) {
        Ok(Ok(t)) => Ok(t),
        Ok(Err(e)) => Err(format!("Err({:?})", e.kind())),
        Err(p) => Err(format!("panic: {p}")),
    }
}

fn check_cuts(bytes: &[u8], base: &Result<Trace, String>, cuts: &[usize], interrupts: &[usize], acc: &mut Acc) {
    acc.evals += 1;
    acc.transitions += cuts.len() as u64 + interrupts.len() as u64 + 1;
    let got = run_cuts(bytes, cuts, interrupts);
    if &got != base {
        let first = cuts.first().copied().unwrap_or(bytes.len());
        let class = if !interrupts.is_empty() && run_cuts(bytes, cuts, &[]) == *base {
            "interrupted-changes-outcome"
        } else {
            classify(bytes, first)
        };
        acc.violation(Violation::new(
            class,
            format!(
                "{} cuts={cuts:?} interrupts={interrupts:?}: got {}, single chunk gives {}",
                show_bytes(&bytes[..bytes.len().min(60)]),
                short(&got),
                short(base)
            ),
            case_cuts(bytes, cuts, interrupts),
        ));
    }
}

fn short(r: &Result<Trace, String>) -> String {
    match r {
        Ok(t) => format!("Ok(version {}, {} lines)", t.version, t.lines.len()),
        Err(e) => e.clone(),
    }
}

// ---------------------------------------------------------------------------
// (A) all schedules over short files

fn level_a(tier: Tier, acc_out: &mut Acc) -> Value {
    let mut alpha: Vec<u8> = vec![0xEF, 0xBB, 0xBF, 0xFF, 0xFE, 0x0A, 0x00, b'a'];
    if tier.thorough() {
        alpha.extend([0x0D, b'[']);
    }
    let n = 6usize;
    let interrupts = tier.pick(1u32, 2u32);
    let mut per_len = Vec::new();
    for len in 0..=n {
        let files = (alpha.len() as u64).pow(len as u32);
        let alpha_ref = &alpha;
        let a = par_range(files, |idx, acc| {
            let mut bytes = Vec::with_capacity(len);
            let mut k = idx;
            for _ in 0..len {
                bytes.push(alpha_ref[(k % alpha_ref.len() as u64) as usize]);
                k /= alpha_ref.len() as u64;
            }
            let base = baseline(&bytes);
            acc.states += 1;
            let mut outcomes = 0u64;
            let stats = tree::explore(
                None,
                |ch| {
                    let choices_before = ch.trace.len();
                    let _ = choices_before;
                    let _g = crate::engine::watch::bytes_guard(&bytes);
                    let r = guarded(|| Trace::decode(SchedReader::new(&bytes, ch, interrupts)));
                    match r {
                        Ok(Ok(t)) => Ok(t),
                        Ok(Err(e)) => Err(format!("Err({:?})", e.kind())),
                        Err(p) => Err(format!("panic: {p}")),
                    }
                },
                |choices, got| {
                    outcomes += 1;
                    if got != base {
                        // reconstruct the first chunk length for classification
                        let first = choices.first().map_or(bytes.len(), |c| {
                            if *c == 0 { bytes.len() } else { *c as usize }
                        });
                        let first = if choices.first().copied() == Some(bytes.len() as u32) {
                            // first answer was an interrupt: look at the next one
                            choices.get(1).map_or(bytes.len(), |c| if *c == 0 { bytes.len() } else { *c as usize })
                        } else {
                            first
                        };
                        acc.violation(Violation::new(
                            classify(&bytes, first),
                            format!("{} schedule {choices:?}: got {}, single chunk gives {}", show_bytes(&bytes), short(&got), short(&base)),
                            json!({"kind": "schedule", "hex": hex(&bytes), "choices": choices, "interrupts": interrupts}),
                        ));
                    }
                },
            );
            acc.evals += stats.runs;
            acc.transitions += stats.edges;
            acc.states += stats.nodes;
            if let Ok(t) = &base {
                if bytes.len() >= 3 {
                    acc.nontrivial(&(t, &bytes));
                }
            }
            if idx % 9973 == 1 {
                acc.sample(|| json!({"file_hex": hex(&bytes), "schedules": stats.runs}));
            }
        });
        per_len.push(json!({"len": len, "files": files}));
        let cur = std::mem::take(acc_out);
        *acc_out = cur.merge(a);
    }
    json!({"alphabet_hex": hex(&alpha), "max_len": n, "max_interrupts": interrupts, "per_len": per_len,
        "schedules": "every composition of the file into chunks x every placement of the Interrupted answers"})
}

// ---------------------------------------------------------------------------
// (B) bounded deviations on real files

pub fn file_pool() -> Vec<(String, Vec<u8>)> {
    let mut pool = Vec::new();
    for (name, bytes) in bundled_files() {
        let text = text_of(&bytes);
        for enc in ENCS {
            pool.push((format!("{name} [{enc:?}]"), encode_text(&text, enc)));
        }
    }
    // short texts behind 0..3 byte order marks: only the first mark is a mark, for every entry point alike
    let tails = [
        "osu file format v9\n[General]\nMode: 1\n",
        "[Metadata]\nTitle:a\n",
        "osu file format v4",
        "a",
        // leading white space is content: an indented version line is not a version line
        " osu file format v9\n[General]\nMode: 1\n",
        "\n \n[General]\n Mode: 3\n",
        "\r\n\r\nosu file format v5\n[General]\nMode: 2\n",
    ];
    for k in 0..=3usize {
        for (i, tail) in tails.iter().enumerate() {
            let mut b: Vec<u8> = [0xEF, 0xBB, 0xBF].repeat(k);
            b.extend_from_slice(tail.as_bytes());
            pool.push((format!("synthetic: {k} UTF-8 marks + text {i}"), b));
        }
    }
    pool
}

fn interesting_offsets(bytes: &[u8], dense_limit: usize, budget: usize) -> Vec<usize> {
    let len = bytes.len();
    if len <= dense_limit {
        return (1..len).collect();
    }
    let mut v: Vec<usize> = (1..40.min(len)).collect();
    v.extend(len.saturating_sub(40)..len);
    let lfs: Vec<usize> = bytes.iter().enumerate().filter(|(_, b)| **b == b'\n').map(|(i, _)| i).collect();
    let stride = (lfs.len() / budget.max(1)).max(1);
    for lf in lfs.iter().step_by(stride) {
        for d in 0..5 {
            let o = lf + d;
            if o >= 2 && o - 2 < len {
                v.push(o - 2);
            }
        }
    }
    v.sort_unstable();
    v.dedup();
    v.retain(|o| *o >= 1 && *o < len);
    v
}

fn level_b(tier: Tier, acc_out: &mut Acc) -> Value {
    let pool = file_pool();
    let dense = tier.pick(40 * 1024, 600 * 1024);
    let a = par_items(&pool, |(name, bytes), acc| {
        let base = baseline(bytes);
        acc.states += 1;
        if let Ok(t) = &base {
            acc.nontrivial(&(name, t.lines.len()));
        }
        let offs = interesting_offsets(bytes, dense, tier.pick(64, 2000));
        for &o in &offs {
            check_cuts(bytes, &base, &[o], &[], acc);
            // one interrupt before either chunk
            if bytes.len() <= 1024 {
                check_cuts(bytes, &base, &[o], &[0], acc);
                check_cuts(bytes, &base, &[o], &[1], acc);
                check_cuts(bytes, &base, &[o], &[0, 1], acc);
            }
        }
        // two deviations on small files
        if bytes.len() <= tier.pick(256, 600) {
            for o1 in 1..bytes.len() {
                for o2 in o1 + 1..bytes.len() {
                    check_cuts(bytes, &base, &[o1, o2], &[], acc);
                }
            }
        }
        acc.count("files_x_encodings", 1);
        acc.sample(|| json!({"file": name, "len": bytes.len(), "single_cut_offsets": offs.len()}));
    });
    let cur = std::mem::take(acc_out);
    *acc_out = cur.merge(a);
    json!({"files_x_encodings": pool.len(), "all_offsets_up_to_bytes": dense,
        "two_cuts_up_to_bytes": tier.pick(256, 600), "interrupt_placements_up_to_bytes": 1024})
}

// ---------------------------------------------------------------------------
// (C) fixed chunk sizes, BufReader capacities, entry points

fn level_c(acc_out: &mut Acc) -> Value {
    let pool = file_pool();
    let dir = std::env::temp_dir().join(format!("rmc-c08-{}", std::process::id()));
    let _ = std::fs::create_dir_all(&dir);
    let a = par_items(&pool, |(name, bytes), acc| {
        let base = baseline(bytes);
        let _gc = crate::engine::watch::bytes_guard(bytes);
        let base_map = guarded(|| rosu_map::from_bytes::<Beatmap>(bytes).map(|m| format!("{m:?}")).map_err(|e| format!("{:?}", e.kind())));
        let differ = |what: String, acc: &mut Acc| {
            acc.violation(Violation::new(
                "entry-point-or-chunk-size",
                format!("{name}: {what} differs from from_bytes"),
                json!({"kind": "file", "name": name, "hex": if bytes.len() < 4096 { hex(bytes) } else { String::new() }, "what": what}),
            ));
        };
        for size in 1..=64usize {
            let cuts: Vec<usize> = (1..).map(|k| k * size).take_while(|c| *c < bytes.len()).collect();
            acc.evals += 1;
            acc.transitions += cuts.len() as u64 + 1;
            let got = run_cuts(bytes, &cuts, &[]);
            let _gc = crate::engine::watch::bytes_guard(bytes);
            if got != base {
                acc.violation(Violation::new(
                    classify(bytes, size),
                    format!("{name}: fixed chunk size {size}: got {}, single chunk {}", short(&got), short(&base)),
                    case_cuts(if bytes.len() < 4096 { bytes } else { &bytes[..0] }, &cuts[..cuts.len().min(8)], &[]),
                ));
            }
            if bytes.len() <= 1024 || size % 16 == 1 {
                let m = guarded(|| Beatmap::decode(CutReader::new(bytes, &cuts, &[])).map(|m| format!("{m:?}")).map_err(|e| format!("{:?}", e.kind())));
                acc.evals += 1;
                if m != base_map {
                    differ(format!("Beatmap via chunk size {size}"), acc);
                }
            }
        }
        for cap in 1..=16usize {
            acc.evals += 2;
            acc.transitions += (bytes.len() / cap) as u64 + 1;
            let got = match guarded(|| Trace::decode(BufReader::with_capacity(cap, Cursor::new(bytes)))) {
                Ok(Ok(t)) => Ok(t),
                Ok(Err(e)) => Err(format!("Err({:?})", e.kind())),
                Err(p) => Err(format!("panic: {p}")),
            };
            if got != base {
                acc.violation(Violation::new(
                    classify(bytes, cap),
                    format!("{name}: BufReader::with_capacity({cap}): got {}, from_bytes {}", short(&got), short(&base)),
                    json!({"kind": "bufreader", "hex": if bytes.len() < 4096 { hex(bytes) } else { String::new() }, "name": name, "capacity": cap}),
                ));
            }
            if bytes.len() <= 4096 {
                let m = guarded(|| Beatmap::decode(BufReader::with_capacity(cap, Cursor::new(bytes))).map(|m| format!("{m:?}")).map_err(|e| format!("{:?}", e.kind())));
                if m != base_map {
                    differ(format!("Beatmap via BufReader capacity {cap}"), acc);
                }
            }
        }
        // entry points
        acc.evals += 4;
        let via_slice = guarded(|| Beatmap::decode(&bytes[..]).map(|m| format!("{m:?}")).map_err(|e| format!("{:?}", e.kind())));
        if via_slice != base_map {
            differ("decode(&[u8])".into(), acc);
        }
        if let Ok(s) = std::str::from_utf8(bytes) {
            let via_str = guarded(|| rosu_map::from_str::<Beatmap>(s).map(|m| format!("{m:?}")).map_err(|e| format!("{:?}", e.kind())));
            if via_str != base_map {
                differ("from_str".into(), acc);
            }
            let via_parse = guarded(|| s.parse::<Beatmap>().map(|m| format!("{m:?}")).map_err(|e| format!("{:?}", e.kind())));
            if via_parse != base_map {
                differ("str::parse".into(), acc);
            }
            let via_str_trace = guarded(|| rosu_map::from_str::<Trace>(s).map_err(|e| format!("Err({:?})", e.kind()))).and_then(|r| r);
            if via_str_trace != base {
                differ("from_str (trace decoder)".into(), acc);
            }
        }
        let path = dir.join(format!("{:016x}.osu", crate::engine::hash64(name)));
        if std::fs::write(&path, bytes).is_ok() {
            let via_path = guarded(|| rosu_map::from_path::<Beatmap>(&path).map(|m| format!("{m:?}")).map_err(|e| format!("{:?}", e.kind())));
            if via_path != base_map {
                differ("from_path".into(), acc);
            }
            // the inherent constructors of Beatmap and the trait's provided methods
            let via = guarded(|| Beatmap::from_path(&path).map(|m| format!("{m:?}")).map_err(|e| format!("{:?}", e.kind())));
            if via != base_map {
                differ("Beatmap::from_path".into(), acc);
            }
            let via = guarded(|| Beatmap::from_bytes(bytes).map(|m| format!("{m:?}")).map_err(|e| format!("{:?}", e.kind())));
            if via != base_map {
                differ("Beatmap::from_bytes".into(), acc);
            }
            let via = guarded(|| rosu_map::from_path::<Trace>(&path).map_err(|e| format!("Err({:?})", e.kind()))).and_then(|r| r);
            if via != base {
                differ("from_path (trace decoder)".into(), acc);
            }
            let via_file = guarded(|| {
                std::fs::File::open(&path)
                    .and_then(|f| Beatmap::decode(BufReader::with_capacity(7, f)))
                    .map(|m| format!("{m:?}"))
                    .map_err(|e| format!("{:?}", e.kind()))
            });
            if via_file != base_map {
                differ("decode(BufReader<File> capacity 7)".into(), acc);
            }
            let _ = std::fs::remove_file(&path);
        }
    });
    let _ = std::fs::remove_dir_all(&dir);
    let cur = std::mem::take(acc_out);
    *acc_out = cur.merge(a);
    json!({"chunk_sizes": "1..=64", "bufreader_capacities": "1..=16", "entry_points": ["from_bytes", "from_str", "str::parse", "from_path", "decode(&[u8])", "decode(BufReader<File>)"]})
}

pub fn replay(case: &Value) -> Vec<Violation> {
    let bytes = unhex(case["hex"].as_str().unwrap_or(""));
    let base = baseline(&bytes);
    let mut acc = Acc::new();
    match case["kind"].as_str().unwrap_or("") {
        "cuts" => {
            let cuts: Vec<usize> = case["cuts"].as_array().map(|a| a.iter().map(|v| v.as_u64().unwrap() as usize).collect()).unwrap_or_default();
            let ints: Vec<usize> = case["interrupts"].as_array().map(|a| a.iter().map(|v| v.as_u64().unwrap() as usize).collect()).unwrap_or_default();
            check_cuts(&bytes, &base, &cuts, &ints, &mut acc);
        }
        "schedule" => {
            let choices: Vec<u32> = case["choices"].as_array().map(|a| a.iter().map(|v| v.as_u64().unwrap() as u32).collect()).unwrap_or_default();
            let interrupts = case["interrupts"].as_u64().unwrap_or(1) as u32;
            let mut ch = tree::Chooser::new(&choices);
            let got = match guarded(|| Trace::decode(SchedReader::new(&bytes, &mut ch, interrupts))) {
                Ok(Ok(t)) => Ok(t),
                Ok(Err(e)) => Err(format!("Err({:?})", e.kind())),
                Err(p) => Err(format!("panic: {p}")),
            };
            if got != base {
                let first = choices.first().map_or(bytes.len(), |c| if *c == 0 { bytes.len() } else { *c as usize });
                acc.violation(Violation::new(classify(&bytes, first), format!("got {}, single chunk {}", short(&got), short(&base)), case.clone()));
            }
        }
        "bufreader" => {
            let cap = case["capacity"].as_u64().unwrap_or(1) as usize;
            let got = match guarded(|| Trace::decode(BufReader::with_capacity(cap, Cursor::new(&bytes)))) {
                Ok(Ok(t)) => Ok(t),
                Ok(Err(e)) => Err(format!("Err({:?})", e.kind())),
                Err(p) => Err(format!("panic: {p}")),
            };
            if got != base {
                acc.violation(Violation::new(classify(&bytes, cap), format!("capacity {cap}: got {}, from_bytes {}", short(&got), short(&base)), case.clone()));
            }
        }
        _ => {}
    }
    acc.viols.into_values().flatten().collect()
}

pub fn run(tier: Tier) -> i32 {
    let run = Run::new("C08", tier, "model_checking");
    let mut acc = Acc::new();
    run_witnesses("C08", &mut acc, &replay);
    let a = level_a(tier, &mut acc);
    let b = level_b(tier, &mut acc);
    let c = level_c(&mut acc);
    let summary = Summary {
        rule: "(A) choice-tree exploration: every file of <= n bytes over the BOM/LF alphabet x every composition into chunks x \
               every placement of <= 1 (quick) / 2 (thorough) Interrupted answers, each refill of the reader a choice point; \
               (B) every bundled file x 4 encodings and 28 short texts (some starting with white space) behind 0..3 UTF-8 byte order marks: every single cut offset (dense up to a size limit, else head/tail and line \
               boundaries +-2), interrupt placements, every pair of cuts on small files; (C) chunk sizes 1..64, BufReader \
               capacities 1..16, six entry points. Oracle: trace decoder (and Beatmap in C) equals the single-chunk result. \
               states = files + choice points, transitions = chunk/interrupt answers, evaluations = scheduled runs"
            .into(),
        bounds: json!({"A": a, "B": b, "C": c}),
        exhaustive: true,
        caps_hit: vec![],
        assumptions: vec![
            "a reader that returns Interrupted forever is outside the property (finite interrupt budget)".into(),
            "big files: cut offsets limited to head, tail and sampled line boundaries in the quick tier (finite, fully enumerated)".into(),
        ],
    };
    finish(&run, acc, summary)
}
