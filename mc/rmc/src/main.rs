//! rmc — bounded exhaustive exploration of rosu-map against reference models.
//!
//! usage: rmc <property-id> <quick|thorough>
//!        rmc <property-id> --replay <file>

mod engine;
mod env;
mod props;

use engine::{Tier, Violation};
use serde_json::Value;

type RunFn = fn(Tier) -> i32;
type ReplayFn = fn(&Value) -> Vec<Violation>;

fn run_c01(tier: Tier) -> i32 {
    props::c01::run_generic("C01", tier, &std::env::args().skip(1).collect::<Vec<_>>())
}
fn run_c07(tier: Tier) -> i32 {
    props::c01::run_generic("C07", tier, &std::env::args().skip(1).collect::<Vec<_>>())
}

const PROPS: &[(&str, RunFn, ReplayFn)] = &[
    ("C01", run_c01, props::c01::replay),
    ("C02", props::c02::run, props::c02::replay),
    ("C03", props::c03::run, props::c03::replay),
    ("C04", props::c02::run_c04, props::c02::replay_c04),
    ("C05", props::c05::run, props::c05::replay),
    ("C06", props::c06::run, props::c06::replay),
    ("C07", run_c07, props::c01::replay_c07),
    ("C08", props::c08::run, props::c08::replay),
    ("C09", props::c09::run, props::c09::replay),
    ("C10", props::c10::run, props::c10::replay),
    ("C11", props::c11::run, props::c11::replay),
    ("C12", props::c12::run, props::c12::replay),
    ("C13", props::c13::run, props::c13::replay),
    ("C14", props::c14::run, props::c14::replay),
    ("C15", props::c15::run, props::c15::replay),
    ("C16", props::c16::run, props::c16::replay),
    ("C17", props::c17::run, props::c17::replay),
    ("C18", props::c18::run, props::c18::replay),
    ("C19", props::c19::run, props::c19::replay),
    ("C20", props::c20::run, props::c20::replay),
];

fn main() {
    engine::install_panic_hook();
    let args: Vec<String> = std::env::args().skip(1).collect();
    if args.len() < 2 {
        eprintln!("usage: rmc <Cxx> <quick|thorough> | rmc <Cxx> --replay <file>");
        std::process::exit(3);
    }
    let id = args[0].to_uppercase();
    let Some((name, run, replay)) = PROPS.iter().find(|p| p.0 == id) else {
        engine::machinery_error("unknown property")
    };
    if args[1] == "--replay" {
        let path = args
            .get(2)
            .unwrap_or_else(|| engine::machinery_error("missing replay path"));
        std::process::exit(engine::replay_file(name, path, replay));
    }
    let tier = match args[1].as_str() {
        "quick" => Tier::Quick,
        "thorough" => Tier::Thorough,
        _ => engine::machinery_error("tier must be quick or thorough"),
    };
    std::process::exit(run(tier));
}
