//! C10 — text encoding is transparent.
//! E1: (a) every Unicode scalar value as metadata content in the four
//! encodings; (b) every short byte string injected into a UTF-8 line vs
//! `from_utf8_lossy`; (c) UTF-16 code-unit sequences (lone/paired surrogates,
//! units containing the byte 0x0A) vs `char::decode_utf16`; (d) every
//! truncation of the bundled files in UTF-16/UTF-8-BOM; (e) bundled files
//! decode to identical maps in all encodings.

use rosu_map::{section::metadata::Metadata, Beatmap};
use serde_json::{json, Value};

use crate::{
    engine::{digits, finish, guarded, hex, par_items, par_range, product, run_witnesses, show_bytes, unhex, Acc, Run, Summary, Tier, Violation},
    env::{bundled_files, encode_text, ref_frame, ref_lines, text_of, Enc, Trace, ENCS},
};

fn case(bytes: &[u8]) -> Value {
    json!({"kind": "bytes", "hex": hex(bytes)})
}

/// reference interpretation of the [Metadata] lines of a trace: (title, artist)
fn ref_meta(t: &Trace) -> (String, String) {
    let (mut title, mut artist) = (String::new(), String::new());
    for (sec, line) in &t.lines {
        if *sec != 2 {
            continue;
        }
        let (k, v) = line.split_once(':').unwrap_or((line.as_str(), ""));
        match k.trim() {
            "Title" => title = v.trim().to_string(),
            "Artist" => artist = v.trim().to_string(),
            _ => {}
        }
    }
    (title, artist)
}

fn classify(bytes: &[u8]) -> &'static str {
    let utf16 = bytes.starts_with(&[0xFF, 0xFE]) || bytes.starts_with(&[0xFE, 0xFF]);
    if utf16 {
        let body = &bytes[2..];
        let has_0a_in_other_unit = body.chunks_exact(2).any(|c| (c[0] == 0x0A || c[1] == 0x0A) && !((c[0] == 0x0A && c[1] == 0) || (c[0] == 0 && c[1] == 0x0A)));
        if has_0a_in_other_unit {
            return "utf16-unit-containing-byte-0a";
        }
        if body.len() % 2 == 1 {
            return "utf16-odd-tail";
        }
        "utf16-decoding"
    } else if std::str::from_utf8(bytes).is_err() {
        "invalid-utf8-replacement"
    } else {
        "utf8-decoding"
    }
}

/// Trace and Metadata of `bytes` against the reference decoding.
fn check_bytes(bytes: &[u8], acc: &mut Acc) -> Option<(String, String)> {
    let _g = crate::engine::watch::bytes_guard(bytes);
    acc.evals += 1;
    acc.transitions += 1;
    let want = ref_frame(&ref_lines(bytes));
    match guarded(|| (rosu_map::from_bytes::<Trace>(bytes), rosu_map::from_bytes::<Metadata>(bytes))) {
        Ok((Ok(t), Ok(m))) => {
            if t != want {
                acc.violation(Violation::new(
                    classify(bytes),
                    format!("{}: lines {:?}, reference decoding gives {:?}", show_bytes(bytes), t.lines, want.lines),
                    case(bytes),
                ));
                return None;
            }
            let (title, artist) = ref_meta(&want);
            if m.title != title || m.artist != artist {
                acc.violation(Violation::new(
                    classify(bytes),
                    format!("{}: title/artist {:?}/{:?}, reference {:?}/{:?}", show_bytes(bytes), m.title, m.artist, title, artist),
                    case(bytes),
                ));
                return None;
            }
            Some((m.title, m.artist))
        }
        Ok((a, b)) => {
            acc.violation(Violation::new(
                "decode-error",
                format!("{}: {:?} / {:?}", show_bytes(bytes), a.err().map(|e| e.kind()), b.err().map(|e| e.kind())),
                case(bytes),
            ));
            None
        }
        Err(p) => {
            acc.violation(Violation::new("panic", format!("{}: {p}", show_bytes(bytes)), case(bytes)));
            None
        }
    }
}

fn scalars(tier: Tier, acc_out: &mut Acc) -> Value {
    let _ = tier;
    let total = 0x11_0000u64;
    let a = par_range(total, |cp, acc| {
        let Some(ch) = char::from_u32(cp as u32) else { return };
        acc.states += 1;
        for shape in 0..2 {
            let text = if shape == 0 {
                format!("[Metadata]\nTitle:a{ch}b\nArtist:ok\n")
            } else {
                format!("osu file format v14\r\n\r\n[Metadata]\r\nTitle: {ch}\r\nArtist:ok\r\n")
            };
            let mut results = Vec::with_capacity(4);
            for enc in ENCS {
                let bytes = encode_text(&text, enc);
                results.push(check_bytes(&bytes, acc));
            }
            // differential: all four encodings agree
            if results.iter().all(Option::is_some) && results.windows(2).any(|w| w[0] != w[1]) {
                acc.violation(Violation::new(
                    "encodings-disagree",
                    format!("U+{cp:04X}: {results:?}"),
                    json!({"kind": "scalar", "cp": cp, "shape": shape}),
                ));
            }
            // the neighbouring line is never affected
            if let Some(Some((_, artist))) = results.first() {
                if artist != "ok" && ch != '\n' {
                    acc.violation(Violation::new("neighbour-line-affected", format!("U+{cp:04X}"), json!({"kind": "scalar", "cp": cp, "shape": shape})));
                }
            }
        }
        let unit_has_0a = (cp <= 0xFFFF && ((cp & 0xFF) == 0x0A || (cp >> 8) == 0x0A)) || cp > 0xFFFF;
        if unit_has_0a || !ch.is_ascii() {
            acc.nontrivial_hash(cp);
        }
        if cp == 0x4E0A || cp == 0x1F600 || cp == 0x0A41 {
            acc.sample(|| json!({"scalar": format!("U+{cp:04X}"), "text": format!("Title:a{ch}b")}));
        }
    });
    let cur = std::mem::take(acc_out);
    *acc_out = cur.merge(a);
    json!({"scalars": "all 1112064 Unicode scalar values", "shapes": ["Title:a<ch>b (LF)", "Title: <ch> (CRLF, version line)"], "encodings": 4})
}

const SIGMA: [u8; 21] = [
    0xEF, 0xBB, 0xBF, 0xFF, 0xFE, 0x00, 0x0A, 0x0D, 0x20, b'[', b']', b'/', b':', b',', b'|', b'v', b'1', b'-', 0x80, 0xC3, 0xD8,
];

fn inject_utf8(prefix: &[u8], inj: &[u8]) -> Vec<u8> {
    let mut f = prefix.to_vec();
    f.extend_from_slice(b"[Metadata]\nTitle:a");
    f.extend_from_slice(inj);
    f.extend_from_slice(b"z\nArtist:ok\n");
    f
}

/// the injected bytes are the last bytes of the input (no line feed after them)
fn inject_utf8_tail(prefix: &[u8], inj: &[u8]) -> Vec<u8> {
    let mut f = prefix.to_vec();
    f.extend_from_slice(b"[Metadata]\nArtist:ok\nTitle:a");
    f.extend_from_slice(inj);
    f
}

fn invalid_utf8(tier: Tier, acc_out: &mut Acc) -> Value {
    let max_len = tier.pick(2usize, 3usize);
    let mut per = Vec::new();
    for len in 1..=max_len {
        let total = 256u64.pow(len as u32);
        let a = par_range(total, |idx, acc| {
            let inj: Vec<u8> = (0..len).map(|i| ((idx >> (8 * i)) & 0xFF) as u8).collect();
            acc.states += 1;
            for prefix in [&[][..], &[0xEF, 0xBB, 0xBF][..]] {
                let f = inject_utf8(prefix, &inj);
                if let Some((_, artist)) = check_bytes(&f, acc) {
                    if artist != "ok" {
                        acc.violation(Violation::new("neighbour-line-affected", show_bytes(&f), case(&f)));
                    }
                }
                check_bytes(&inject_utf8_tail(prefix, &inj), acc);
            }
            if std::str::from_utf8(&inj).is_err() {
                acc.nontrivial(&inj);
            }
            if idx == 0xC3 || idx == 0x80E2 {
                acc.sample(|| json!({"injected_hex": hex(&inj)}));
            }
        });
        per.push(json!({"len": len, "strings": total}));
        let cur = std::mem::take(acc_out);
        *acc_out = cur.merge(a);
    }
    // Sigma^4 and Sigma^5 (thorough)
    let slen = tier.pick(4usize, 5usize);
    let radices = vec![SIGMA.len() as u64; slen];
    let total = product(&radices);
    let a = par_range(total, |idx, acc| {
        let mut d = Vec::new();
        digits(idx, &radices, &mut d);
        let inj: Vec<u8> = d.iter().map(|&i| SIGMA[i]).collect();
        acc.states += 1;
        let f = inject_utf8(&[], &inj);
        check_bytes(&f, acc);
        check_bytes(&inject_utf8_tail(&[], &inj), acc);
        // and as a whole file (BOM prefixes reach the UTF-16 decoders)
        check_bytes(&inj, acc);
        if std::str::from_utf8(&inj).is_err() {
            acc.nontrivial(&inj);
        }
    });
    per.push(json!({"sigma_len": slen, "strings": total}));
    let cur = std::mem::take(acc_out);
    *acc_out = cur.merge(a);
    json!({"all_byte_strings_up_to": max_len, "per_len": per, "sigma_hex": hex(&SIGMA)})
}

const UNITS: [u16; 24] = [
    0x0041, 0x000A, 0x0A00, 0x4E0A, 0x010A, 0x0A0A, 0xD7FF, 0xD800, 0xD801, 0xDBFF, 0xDC00, 0xDC01, 0xDFFF, 0xE000, 0xFFFD, 0xFFFE,
    0xFFFF, 0xFEFF, 0x0020, 0x3000, 0x000D, 0x003A, 0x002F, 0x0000,
];

fn utf16_file(le: bool, units: &[u16]) -> Vec<u8> {
    let mut all: Vec<u16> = "[Metadata]\nTitle:a".encode_utf16().collect();
    all.extend_from_slice(units);
    all.extend("z\nArtist:ok\n".encode_utf16());
    let mut v = if le { vec![0xFF, 0xFE] } else { vec![0xFE, 0xFF] };
    for u in all {
        v.extend_from_slice(&if le { u.to_le_bytes() } else { u.to_be_bytes() });
    }
    v
}

/// the units are the last ones of the input
fn utf16_tail_file(le: bool, units: &[u16]) -> Vec<u8> {
    let mut all: Vec<u16> = "[Metadata]\nArtist:ok\nTitle:a".encode_utf16().collect();
    all.extend_from_slice(units);
    let mut v = if le { vec![0xFF, 0xFE] } else { vec![0xFE, 0xFF] };
    for u in all {
        v.extend_from_slice(&if le { u.to_le_bytes() } else { u.to_be_bytes() });
    }
    v
}

fn utf16_units(tier: Tier, acc_out: &mut Acc) -> Value {
    // every single unit
    let a = par_range(0x1_0000, |u, acc| {
        acc.states += 1;
        for le in [true, false] {
            let f = utf16_file(le, &[u as u16]);
            if let Some((_, artist)) = check_bytes(&f, acc) {
                if artist != "ok" {
                    acc.violation(Violation::new("neighbour-line-affected", format!("unit {u:04X}"), case(&f)));
                }
            }
            let f = utf16_tail_file(le, &[u as u16]);
            check_bytes(&f, acc);
            check_bytes(&f[..f.len() - 1], acc);
        }
        if (0xD800..0xE000).contains(&u) || (u & 0xFF) == 0x0A || (u >> 8) == 0x0A {
            acc.nontrivial_hash(0x1_0000_0000 + u);
        }
    });
    let cur = std::mem::take(acc_out);
    *acc_out = cur.merge(a);
    // sequences over the boundary menu
    let max = tier.pick(3usize, 4usize);
    let mut per = Vec::new();
    for len in 2..=max {
        let radices = vec![UNITS.len() as u64; len];
        let total = product(&radices);
        let a = par_range(total, |idx, acc| {
            let mut d = Vec::new();
            digits(idx, &radices, &mut d);
            let units: Vec<u16> = d.iter().map(|&i| UNITS[i]).collect();
            acc.states += 1;
            for le in [true, false] {
                let f = utf16_file(le, &units);
                check_bytes(&f, acc);
                // odd tail: drop the last byte
                check_bytes(&f[..f.len() - 1], acc);
                let f = utf16_tail_file(le, &units);
                check_bytes(&f, acc);
                check_bytes(&f[..f.len() - 1], acc);
            }
            acc.nontrivial(&units);
            if idx == 7 * 24 + 10 {
                acc.sample(|| json!({"units": units.iter().map(|u| format!("{u:04X}")).collect::<Vec<_>>()}));
            }
        });
        per.push(json!({"units": len, "sequences": total}));
        let cur = std::mem::take(acc_out);
        *acc_out = cur.merge(a);
    }
    json!({"single_units": 65536, "menu": UNITS.iter().map(|u| format!("{u:04X}")).collect::<Vec<_>>(), "sequences": per})
}

fn truncations(tier: Tier, acc_out: &mut Acc) -> Value {
    let files = bundled_files();
    let limit = tier.pick(1200usize, 80_000usize);
    let a = par_items(&files, |(name, bytes), acc| {
        let text = text_of(bytes);
        // identical maps in all encodings
        let maps: Vec<Result<String, String>> = ENCS
            .iter()
            .map(|&enc| {
                let b = encode_text(&text, enc);
                let _g = crate::engine::watch::bytes_guard(&b);
                acc.evals += 1;
                guarded(|| rosu_map::from_bytes::<Beatmap>(&b).map(|m| format!("{m:?}")).map_err(|e| format!("{:?}", e.kind()))).and_then(|r| r)
            })
            .collect();
        if maps.windows(2).any(|w| w[0] != w[1]) {
            acc.violation(Violation::new(
                "encodings-disagree",
                format!("{name}: the four encodings decode to different maps"),
                json!({"kind": "file", "name": name}),
            ));
        }
        acc.states += 1;
        for enc in [Enc::Utf16Le, Enc::Utf16Be, Enc::Utf8Bom] {
            let full = encode_text(&text, enc);
            let cuts: Vec<usize> = if full.len() <= limit {
                (0..=full.len()).collect()
            } else {
                let mut v: Vec<usize> = (0..64).collect();
                let lfs: Vec<usize> = full.iter().enumerate().filter(|(_, b)| **b == 0x0A).map(|(i, _)| i).collect();
                let stride = (lfs.len() / 200).max(1);
                for lf in lfs.iter().step_by(stride) {
                    v.extend(lf.saturating_sub(2)..=(lf + 3).min(full.len()));
                }
                v.extend(full.len().saturating_sub(8)..=full.len());
                v.sort_unstable();
                v.dedup();
                v
            };
            for c in cuts {
                check_bytes(&full[..c], acc);
            }
        }
        acc.nontrivial(name);
    });
    let cur = std::mem::take(acc_out);
    *acc_out = cur.merge(a);
    json!({"files": files.len(), "every_truncation_up_to_bytes": limit, "encodings": ["UTF-16LE", "UTF-16BE", "UTF-8 BOM"]})
}

pub fn replay(case: &Value) -> Vec<Violation> {
    let mut acc = Acc::new();
    match case["kind"].as_str().unwrap_or("bytes") {
        "scalar" => {
            if let Some(ch) = char::from_u32(case["cp"].as_u64().unwrap_or(0) as u32) {
                let text = format!("[Metadata]\nTitle:a{ch}b\nArtist:ok\n");
                let res: Vec<_> = ENCS.iter().map(|&e| check_bytes(&encode_text(&text, e), &mut acc)).collect();
                if res.windows(2).any(|w| w[0] != w[1]) {
                    acc.violation(Violation::new("encodings-disagree", format!("{res:?}"), case.clone()));
                }
            }
        }
        "file" => {
            let name = case["name"].as_str().unwrap_or("");
            if let Some((_, bytes)) = bundled_files().into_iter().find(|(n, _)| n == name) {
                let text = text_of(&bytes);
                let maps: Vec<String> = ENCS.iter().map(|&e| format!("{:?}", rosu_map::from_bytes::<Beatmap>(&encode_text(&text, e)))).collect();
                if maps.windows(2).any(|w| w[0] != w[1]) {
                    acc.violation(Violation::new("encodings-disagree", name.to_string(), case.clone()));
                }
            }
        }
        _ => {
            check_bytes(&unhex(case["hex"].as_str().unwrap_or("")), &mut acc);
        }
    }
    acc.viols.into_values().flatten().collect()
}

pub fn run(tier: Tier) -> i32 {
    let run = Run::new("C10", tier, "model_checking");
    let mut acc = Acc::new();
    run_witnesses("C10", &mut acc, &replay);
    let a = scalars(tier, &mut acc);
    let b = invalid_utf8(tier, &mut acc);
    let c = utf16_units(tier, &mut acc);
    let d = truncations(tier, &mut acc);
    let summary = Summary {
        rule: "(a) every Unicode scalar value inside and as a whole metadata value, in UTF-8, UTF-8+BOM, UTF-16LE, UTF-16BE: all four \
               decode to the reference value, neighbouring line unaffected; (b) every byte string of length <= 2 (quick) / 3 (thorough) \
               and every string over a 21-byte alphabet of length 4/5 injected into a UTF-8 line: routed lines == per-line \
               from_utf8_lossy; (c) every UTF-16 code unit and every sequence of <= 3/4 units over a boundary menu (lone and paired \
               surrogates, units containing byte 0x0A, BOM-like units), LE and BE, also with the last byte dropped, in the middle of a line and as \
               the last bytes of the input (as are the injected bytes of (b)): == \
               char::decode_utf16 with replacement, split on U+000A only; (d) every truncation of the bundled files in UTF-16LE/BE \
               and UTF-8+BOM; (e) bundled files decode identically in all encodings. Oracle = trace decoder + Metadata decoder vs \
               reference text decoding and framing. distinct_nontrivial = distinct non-ASCII scalars / invalid byte strings / unit sequences"
            .into(),
        bounds: json!({"scalars": a, "invalid_utf8": b, "utf16_units": c, "truncations": d}),
        exhaustive: true,
        caps_hit: vec![],
        assumptions: vec![
            "texts beginning with U+FEFF are indistinguishable from a BOM and excluded (DESIGN section 7)".into(),
            "reference: String::from_utf8_lossy per line, char::decode_utf16 with U+FFFD, odd trailing byte dropped".into(),
        ],
    };
    finish(&run, acc, summary)
}
