//! C11 — key/value, event and colour records decode per the format rules.
//! E1: every sequence of <= k records over (key x value class) alphabets per
//! section, decoded by every decoder that reads the section, compared with an
//! independent table-driven interpreter.

use rosu_map::{
    section::{
        colors::Colors, difficulty::Difficulty, editor::Editor, events::Events, general::General,
        hit_objects::HitObjects, metadata::Metadata, timing_points::TimingPoints,
    },
    Beatmap,
};
use serde_json::{json, Value};

use crate::engine::{digits, finish, guarded, par_range, product, run_witnesses, Acc, Run, Summary, Tier, Violation};

// ---------------------------------------------------------------------------
// reference number parsing (Rust's std grammar + the format's limits)

fn ref_i32(s: &str) -> Option<i32> {
    let n: i32 = s.trim().parse().ok()?;
    (n != i32::MIN).then_some(n)
}
fn ref_f32(s: &str) -> Option<f32> {
    let n: f32 = s.trim().parse().ok()?;
    // limit +-(2^31-1), which as f32 is 2147483648
    (!n.is_nan() && (-2147483648.0..=2147483648.0).contains(&n)).then_some(n)
}
fn ref_f64(s: &str) -> Option<f64> {
    let n: f64 = s.trim().parse().ok()?;
    (!n.is_nan() && (-2147483647.0..=2147483647.0).contains(&n)).then_some(n)
}
fn strip_comment(l: &str) -> &str {
    match l.find("//") {
        Some(i) => l[..i].trim_end(),
        None => l.trim_end(),
    }
}
/// (key, value): key and value trimmed, split at the first colon
fn key_value(l: &str) -> (&str, &str) {
    match l.split_once(':') {
        Some((k, v)) => (k.trim(), v.trim()),
        None => (l.trim(), ""),
    }
}
fn clamp(v: f64, lo: f64, hi: f64) -> f64 {
    if v < lo {
        lo
    } else if v > hi {
        hi
    } else {
        v
    }
}

// ---------------------------------------------------------------------------
// reference interpreters: each returns a canonical description string

fn ref_general(lines: &[&str]) -> String {
    let mut audio = String::new();
    let mut lead_in = 0.0f64;
    let mut preview = -1;
    let mut bank = 0; // None
    let mut volume = 100;
    let mut stack = 0.7f32;
    let mut mode = 0;
    let (mut letterbox, mut special, mut wide, mut epilepsy, mut samples_match) = (false, false, false, false, false);
    let mut countdown = 1;
    let mut cd_offset = 0;
    for l in lines {
        let (k, v) = key_value(strip_comment(l));
        match k {
            "AudioFilename" => audio = v.replace('\\', "/"),
            "AudioLeadIn" => {
                if let Some(n) = ref_i32(v) {
                    lead_in = f64::from(n);
                }
            }
            "PreviewTime" => {
                if let Some(n) = ref_i32(v) {
                    preview = n;
                }
            }
            "SampleSet" => match v {
                "0" | "None" => bank = 0,
                "1" | "Normal" => bank = 1,
                "2" | "Soft" => bank = 2,
                "3" | "Drum" => bank = 3,
                _ => {}
            },
            "SampleVolume" => {
                if let Some(n) = ref_i32(v) {
                    volume = n;
                }
            }
            "StackLeniency" => {
                if let Some(n) = ref_f32(v) {
                    stack = n;
                }
            }
            "Mode" => match v {
                "0" => mode = 0,
                "1" => mode = 1,
                "2" => mode = 2,
                "3" => mode = 3,
                _ => {}
            },
            "LetterboxInBreaks" => {
                if let Some(n) = ref_i32(v) {
                    letterbox = n == 1;
                }
            }
            "SpecialStyle" => {
                if let Some(n) = ref_i32(v) {
                    special = n == 1;
                }
            }
            "WidescreenStoryboard" => {
                if let Some(n) = ref_i32(v) {
                    wide = n == 1;
                }
            }
            "EpilepsyWarning" => {
                if let Some(n) = ref_i32(v) {
                    epilepsy = n == 1;
                }
            }
            "SamplesMatchPlaybackRate" => {
                if let Some(n) = ref_i32(v) {
                    samples_match = n == 1;
                }
            }
            "Countdown" => match v {
                "0" | "None" => countdown = 0,
                "1" | "Normal" => countdown = 1,
                "2" | "Half speed" => countdown = 2,
                "3" | "Double speed" => countdown = 3,
                _ => {}
            },
            "CountdownOffset" => {
                if let Some(n) = ref_i32(v) {
                    cd_offset = n;
                }
            }
            _ => {}
        }
    }
    format!(
        "{audio:?}|{lead_in:?}|{preview}|{bank}|{volume}|{stack:?}|{mode}|{letterbox}|{special}|{wide}|{epilepsy}|{samples_match}|{countdown}|{cd_offset}"
    )
}

macro_rules! general_obs {
    ($g:expr) => {
        format!(
            "{:?}|{:?}|{}|{}|{}|{:?}|{}|{}|{}|{}|{}|{}|{}|{}",
            $g.audio_file,
            $g.audio_lead_in,
            $g.preview_time,
            $g.default_sample_bank as i32,
            $g.default_sample_volume,
            $g.stack_leniency,
            $g.mode as i32,
            $g.letterbox_in_breaks,
            $g.special_style,
            $g.widescreen_storyboard,
            $g.epilepsy_warning,
            $g.samples_match_playback_rate,
            $g.countdown as i32,
            $g.countdown_offset
        )
    };
}

fn ref_editor(lines: &[&str]) -> String {
    let mut bookmarks: Vec<i32> = Vec::new();
    let (mut spacing, mut divisor, mut grid, mut zoom) = (1.0f64, 4, 0, 1.0f64);
    for l in lines {
        let (k, v) = key_value(strip_comment(l));
        match k {
            "Bookmarks" => bookmarks = v.split(',').filter_map(|s| s.parse::<i32>().ok()).collect(),
            "DistanceSpacing" => {
                if let Some(n) = ref_f64(v) {
                    spacing = n;
                }
            }
            "BeatDivisor" => {
                if let Some(n) = ref_i32(v) {
                    divisor = n;
                }
            }
            "GridSize" => {
                if let Some(n) = ref_i32(v) {
                    grid = n;
                }
            }
            "TimelineZoom" => {
                if let Some(n) = ref_f64(v) {
                    zoom = n;
                }
            }
            _ => {}
        }
    }
    format!("{bookmarks:?}|{spacing:?}|{divisor}|{grid}|{zoom:?}")
}

macro_rules! editor_obs {
    ($e:expr) => {
        format!("{:?}|{:?}|{}|{}|{:?}", $e.bookmarks, $e.distance_spacing, $e.beat_divisor, $e.grid_size, $e.timeline_zoom)
    };
}

fn ref_metadata(lines: &[&str]) -> String {
    let mut text: [String; 8] = Default::default();
    let (mut id, mut set_id) = (-1, 0);
    const KEYS: [&str; 8] = ["Title", "TitleUnicode", "Artist", "ArtistUnicode", "Creator", "Version", "Source", "Tags"];
    for l in lines {
        // metadata lines are NOT comment-stripped
        let (k, v) = key_value(l.trim_end());
        if let Some(i) = KEYS.iter().position(|x| *x == k) {
            text[i] = v.to_string();
        } else if k == "BeatmapID" {
            if let Some(n) = ref_i32(v) {
                id = n;
            }
        } else if k == "BeatmapSetID" {
            if let Some(n) = ref_i32(v) {
                set_id = n;
            }
        }
    }
    format!("{text:?}|{id}|{set_id}")
}

macro_rules! metadata_obs {
    ($m:expr) => {
        format!(
            "{:?}|{}|{}",
            [&$m.title, &$m.title_unicode, &$m.artist, &$m.artist_unicode, &$m.creator, &$m.version, &$m.source, &$m.tags],
            $m.beatmap_id,
            $m.beatmap_set_id
        )
    };
}

fn ref_difficulty(lines: &[&str]) -> String {
    let (mut hp, mut cs, mut od, mut ar) = (5.0f32, 5.0f32, 5.0f32, 5.0f32);
    let (mut sm, mut tr) = (1.4f64, 1.0f64);
    let mut has_ar = false;
    for l in lines {
        let (k, v) = key_value(strip_comment(l));
        match k {
            "HPDrainRate" => {
                if let Some(n) = ref_f32(v) {
                    hp = n;
                }
            }
            "CircleSize" => {
                if let Some(n) = ref_f32(v) {
                    cs = n;
                }
            }
            "OverallDifficulty" => {
                if let Some(n) = ref_f32(v) {
                    od = n;
                    if !has_ar {
                        ar = n;
                    }
                }
            }
            "ApproachRate" => {
                if let Some(n) = ref_f32(v) {
                    ar = n;
                    has_ar = true;
                }
            }
            "SliderMultiplier" => {
                if let Some(n) = ref_f64(v) {
                    sm = clamp(n, 0.4, 3.6);
                }
            }
            "SliderTickRate" => {
                if let Some(n) = ref_f64(v) {
                    tr = clamp(n, 0.5, 8.0);
                }
            }
            _ => {}
        }
    }
    format!("{hp:?}|{cs:?}|{od:?}|{ar:?}|{sm:?}|{tr:?}")
}

macro_rules! difficulty_obs {
    ($d:expr) => {
        format!(
            "{:?}|{:?}|{:?}|{:?}|{:?}|{:?}",
            $d.hp_drain_rate, $d.circle_size, $d.overall_difficulty, $d.approach_rate, $d.slider_multiplier, $d.slider_tick_rate
        )
    };
}

fn clean_filename(s: &str) -> String {
    s.trim_matches('"').replace("\\\\", "\\").replace('\\', "/")
}

fn ref_events(lines: &[&str]) -> String {
    let mut background = String::new();
    let mut breaks: Vec<(f64, f64)> = Vec::new();
    for l in lines {
        let f: Vec<&str> = strip_comment(l).split(',').collect();
        if f.len() < 3 {
            continue;
        }
        match f[0] {
            "0" | "Background" => background = clean_filename(f[2]),
            "1" | "Video" => {
                let name = clean_filename(f[2]);
                let b = name.as_bytes();
                if b.len() >= 3 {
                    let ext: Vec<u8> = b[b.len() - 3..].iter().map(u8::to_ascii_lowercase).collect();
                    const VIDEO: [&[u8]; 7] = [b"mp4", b"mov", b"avi", b"flv", b"mpg", b"wmv", b"m4v"];
                    if !VIDEO.contains(&ext.as_slice()) {
                        background = name;
                    }
                }
            }
            "2" | "Break" => {
                if let (Some(s), Some(e)) = (ref_f64(f[1]), ref_f64(f[2])) {
                    breaks.push((s, if e > s { e } else { s }));
                }
            }
            "4" | "Sprite" => {
                if background.is_empty() {
                    if let Some(name) = f.get(3) {
                        background = clean_filename(name);
                    }
                }
            }
            _ => {}
        }
    }
    format!("{background:?}|{breaks:?}")
}

macro_rules! events_obs {
    ($e:expr) => {
        format!(
            "{:?}|{:?}",
            $e.background_file,
            $e.breaks.iter().map(|b| (b.start_time, b.end_time)).collect::<Vec<_>>()
        )
    };
}

fn ref_colors(lines: &[&str]) -> String {
    let mut combos: Vec<[u8; 4]> = Vec::new();
    let mut custom: Vec<(String, [u8; 4])> = Vec::new();
    for l in lines {
        let (k, v) = key_value(strip_comment(l));
        let parts: Vec<&str> = v.split(',').map(str::trim).collect();
        if parts.len() < 3 || parts.len() > 4 {
            continue;
        }
        let (Ok(r), Ok(g), Ok(b)) = (parts[0].parse::<u8>(), parts[1].parse::<u8>(), parts[2].parse::<u8>()) else {
            continue;
        };
        let c = [r, g, b, 255];
        if k.starts_with("Combo") {
            combos.push(c);
        } else if let Some(e) = custom.iter_mut().find(|(n, _)| n == k) {
            e.1 = c;
        } else {
            custom.push((k.to_string(), c));
        }
    }
    format!("{combos:?}|{custom:?}")
}

macro_rules! colors_obs {
    ($c:expr) => {
        format!(
            "{:?}|{:?}",
            $c.custom_combo_colors.iter().map(|c| c.0).collect::<Vec<_>>(),
            $c.custom_colors.iter().map(|c| (c.name.clone(), c.color.0)).collect::<Vec<_>>()
        )
    };
}

// ---------------------------------------------------------------------------
// alphabets

const NUM: [&str; 19] = [
    "0", "1", "-1", "2", "0.5", "7e0", " 7 ", "+7", "", "-", "NaN", "inf", "1e999", "2147483647", "2147483648", "-2147483648",
    "-2147483647", "1 // c", "1:2",
];

fn num_classes(tier: Tier, extra: &[&'static str]) -> Vec<&'static str> {
    let mut v: Vec<&str> = if tier.thorough() { NUM.to_vec() } else { NUM[..].iter().copied().filter(|s| !["7e0", "+7", "-", "1e999"].contains(s)).collect() };
    v.extend_from_slice(extra);
    v
}

fn records(section: &str, tier: Tier) -> Vec<String> {
    let mut out: Vec<String> = Vec::new();
    let mut kv = |k: &str, vals: &[&str]| {
        for v in vals {
            out.push(format!("{k}: {v}"));
        }
    };
    match section {
        "General" => {
            kv("AudioFilename", &["audio.mp3", "dir\\a b.mp3", "a:b.mp3", "", "x // c", "sb/a.mp3 // c", "a/b/c.mp3"]);
            for k in ["AudioLeadIn", "PreviewTime", "SampleVolume", "CountdownOffset"] {
                kv(k, &num_classes(tier, &[]));
            }
            kv("StackLeniency", &num_classes(tier, &["0.7", "2147483520", "2147483649", "1e-320"]));
            kv("SampleSet", &["0", "1", "2", "3", "4", "None", "Normal", "Soft", "Drum", "soft", "", " Soft "]);
            kv("Mode", &["0", "1", "2", "3", "4", "-1", "01", "", "1.0", "1 // c"]);
            for k in ["LetterboxInBreaks", "SpecialStyle", "WidescreenStoryboard", "EpilepsyWarning", "SamplesMatchPlaybackRate"] {
                kv(k, &["1", "0", "2", "-1", "01", "1.0", "x", "", "true"]);
            }
            kv("Countdown", &["0", "1", "2", "3", "4", "None", "Normal", "Half speed", "Double speed", "half speed", ""]);
        }
        "Editor" => {
            kv("Bookmarks", &["100,2000,-5", "7", "", "1,x,3", "2147483647,-2147483647", "1,,2", "5 // c"]);
            kv("DistanceSpacing", &num_classes(tier, &["1.25", "2147483647.5"]));
            kv("TimelineZoom", &num_classes(tier, &["2.5000001"]));
            kv("BeatDivisor", &num_classes(tier, &[]));
            kv("GridSize", &num_classes(tier, &[]));
        }
        "Metadata" => {
            for k in ["Title", "TitleUnicode", "Artist", "ArtistUnicode", "Creator", "Version", "Source", "Tags"] {
                kv(k, &["abc", "Re:Zero", "a // b", "", "  pad  ", "[HitObjects]", "\u{4E0A}\u{E9}"]);
            }
            kv("BeatmapID", &num_classes(tier, &["123"]));
            kv("BeatmapSetID", &num_classes(tier, &["456"]));
        }
        "Difficulty" => {
            for k in ["HPDrainRate", "CircleSize", "OverallDifficulty", "ApproachRate"] {
                kv(k, &num_classes(tier, &["9.3", "2147483649"]));
            }
            kv("SliderMultiplier", &num_classes(tier, &["0.39", "0.4", "3.6", "3.61", "1.7"]));
            kv("SliderTickRate", &num_classes(tier, &["0.49", "0.5", "8", "8.01"]));
        }
        "Events" => {
            for t in ["0", "Background", "1", "Video", "4", "Sprite", "2", "Break", "3", "5", "Sample", "6", "7", "", "background",
                // other spellings of the numbers: the kind is matched as a token, not parsed as a number
                "00", "+0", "+1", "02", "+2", "+4", "1.0", "-0"] {
                for rest in [
                    "0,\"bg.jpg\",0,0",
                    "0,\"v.mp4\"",
                    "0,\"V.AVI\"",
                    "0,img.PNG",
                    "0,\"dir\\\\a\\b.png\"",
                    "Background,Centre,\"sp.png\",320,240",
                    "Background,Centre",
                    "100,900",
                    "900,100",
                    "x,900",
                    "100,NaN",
                    "100",
                    // fractional times: the end is the written number itself, not start + (end - start)
                    "0.3,0.9",
                    "1234.56,7890.12",
                    "0.9,0.3",
                    "0,ab",
                    "0,\"\"",
                    "0,\"bg.jpg\" // c",
                    // every video extension (boundary rule), case variants and near misses
                    "0,a.mov",
                    "0,a.avi",
                    "0,a.flv",
                    "0,a.mpg",
                    "0,a.wmv",
                    "0,a.m4v",
                    "0,a.M4V",
                    "0,a.Mov",
                    "0,a.mp3",
                    "0,a.m4a",
                    "0,4v",
                    "0,mp4",
                    // names whose extension is not three characters, or that have none
                    "0,a.jpeg",
                    "0,noext",
                    "0,a.b",
                    "0,.mp4",
                    "0,a.mp4.png",
                    "0,\"sb/intro.avi\" // c",
                    "0,\"sb/bg.png\" // c",
                    "0,vid\u{e9}os",
                    "0,\u{6620}\u{50cf}v2",
                ] {
                    out.push(format!("{t},{rest}"));
                }
            }
        }
        "Colours" => {
            for k in ["Combo1", "Combo2", "Combo", "SliderBorder", "SliderTrackOverride", "combo1", ""] {
                for v in ["1,2,3", "4,5,6,7", "255,255,255,0", "1,2,3,256", "1,2,3,", "1,2,3,x", "1,2,3,-1", "1,2,3,1.0", "256,0,0", "-1,0,0", "1,2", "1,2,3,4,5", " 8 , 9 , 10 ", "1,2,x", "", "1.5,2,3", "1,2,3 // c"] {
                    out.push(format!("{k} : {v}"));
                }
            }
            out.push("Combo1 1,2,3".into());
        }
        _ => unreachable!(),
    }
    // framing of keys
    let first = out.first().cloned().unwrap_or_default();
    out.push(format!("  {first}"));
    out.push(first.to_lowercase());
    out.push("Unknown: 1".into());
    out.push("NoColonHere".into());
    out.push(": 5".into());
    // padding by white space that is not ASCII: "trimmed" means all Unicode white space
    if let Some((k, v)) = first.split_once(':') {
        let (k, v) = (k.trim(), v.trim());
        out.push(format!("{k}:\u{3000}{v}\u{a0}"));
        out.push(format!("\u{a0}{k}\u{2003}:{v}"));
        out.push(format!("{k}\u{b}:\u{b}{v}\u{85}"));
    }
    match section {
        "General" => {
            out.push("Mode:\u{a0}1".into());
            out.push("SampleSet:\u{3000}Soft".into());
            out.push("Countdown:\u{b}2".into());
            out.push("PreviewTime:\u{2003}77\u{a0}".into());
        }
        "Metadata" => out.push("Title:\u{3000}Renatus\u{2003}".into()),
        "Colours" => out.push("\u{3000}Combo1\u{a0}: 9,8,7".into()),
        _ => {}
    }
    out
}

const SECTION_HEADERS: [(&str, &str); 6] = [
    ("General", "[General]"),
    ("Editor", "[Editor]"),
    ("Metadata", "[Metadata]"),
    ("Difficulty", "[Difficulty]"),
    ("Events", "[Events]"),
    ("Colours", "[Colours]"),
];

/// Decodes `text` with every decoder that reads `section`; returns (decoder, observation).
fn observe(section: &str, text: &str) -> Vec<(&'static str, Result<String, String>)> {
    macro_rules! dec {
        ($t:ty, $name:expr, $obs:ident) => {
            (
                $name,
                guarded(|| rosu_map::from_str::<$t>(text).map(|x| $obs!(x)).map_err(|e| format!("Err({:?})", e.kind()))).and_then(|r| r),
            )
        };
    }
    match section {
        "General" => vec![
            dec!(General, "General", general_obs),
            dec!(TimingPoints, "TimingPoints", general_obs),
            dec!(HitObjects, "HitObjects", general_obs),
            dec!(Beatmap, "Beatmap", general_obs),
        ],
        "Editor" => vec![dec!(Editor, "Editor", editor_obs), dec!(Beatmap, "Beatmap", editor_obs)],
        "Metadata" => vec![dec!(Metadata, "Metadata", metadata_obs), dec!(Beatmap, "Beatmap", metadata_obs)],
        "Difficulty" => vec![
            dec!(Difficulty, "Difficulty", difficulty_obs),
            dec!(HitObjects, "HitObjects", difficulty_obs),
            dec!(Beatmap, "Beatmap", difficulty_obs),
        ],
        "Events" => vec![
            dec!(Events, "Events", events_obs),
            dec!(HitObjects, "HitObjects", events_obs),
            dec!(Beatmap, "Beatmap", events_obs),
        ],
        _ => vec![dec!(Colors, "Colors", colors_obs), dec!(Beatmap, "Beatmap", colors_obs)],
    }
}

fn reference(section: &str, lines: &[&str]) -> String {
    match section {
        "General" => ref_general(lines),
        "Editor" => ref_editor(lines),
        "Metadata" => ref_metadata(lines),
        "Difficulty" => ref_difficulty(lines),
        "Events" => ref_events(lines),
        _ => ref_colors(lines),
    }
}

fn check(section: &str, header: &str, lines: &[&str], acc: &mut Acc) {
    let mut text = String::with_capacity(64);
    text.push_str(header);
    text.push('\n');
    for l in lines {
        text.push_str(l);
        text.push('\n');
    }
    // records that the framing layer would not hand to the parser are not records
    let fed: Vec<&str> = lines
        .iter()
        .copied()
        .filter(|l| !l.trim_end().is_empty() && !l.trim_start().starts_with("//"))
        .map(str::trim_end)
        .collect();
    let want = reference(section, &fed);
    let _g = crate::engine::watch::bytes_guard(text.as_bytes());
    for (dec, got) in observe(section, &text) {
        acc.evals += 1;
        acc.transitions += lines.len() as u64;
        if got.as_deref() != Ok(want.as_str()) {
            acc.violation(Violation::new(
                format!("{}-record-rules", section.to_lowercase()),
                format!("[{section}] {lines:?} via {dec}: got {got:?}, reference {want:?}"),
                json!({"kind": "records", "section": section, "lines": lines}),
            ));
        }
    }
    acc.nontrivial(&(section, &want));
}

pub fn replay(case: &Value) -> Vec<Violation> {
    let section = case["section"].as_str().unwrap_or("General");
    let header = SECTION_HEADERS.iter().find(|(s, _)| *s == section).map_or("[General]", |(_, h)| *h);
    let lines: Vec<String> = case["lines"].as_array().map(|a| a.iter().map(|v| v.as_str().unwrap_or("").to_string()).collect()).unwrap_or_default();
    let refs: Vec<&str> = lines.iter().map(String::as_str).collect();
    let mut acc = Acc::new();
    check(section, header, &refs, &mut acc);
    acc.viols.into_values().flatten().collect()
}

pub fn run(tier: Tier) -> i32 {
    let run = Run::new("C11", tier, "model_checking");
    let mut acc = Acc::new();
    run_witnesses("C11", &mut acc, &replay);
    let mut bounds = Vec::new();
    for (section, header) in SECTION_HEADERS {
        let recs = records(section, tier);
        let k = match (section, tier) {
            ("General", Tier::Quick) | ("Events", Tier::Quick) => 2,
            ("General", Tier::Thorough) | ("Events", Tier::Thorough) => 3,
            (_, Tier::Quick) => 3,
            (_, Tier::Thorough) => 4,
        };
        let mut per = Vec::new();
        for len in 1..=k {
            let radices = vec![recs.len() as u64; len];
            let total = product(&radices);
            let a = par_range(total, |idx, acc| {
                let mut d = Vec::new();
                digits(idx, &radices, &mut d);
                let lines: Vec<&str> = d.iter().map(|&i| recs[i].as_str()).collect();
                acc.states += 1;
                check(section, header, &lines, acc);
                if idx % 70_001 == 3 {
                    acc.sample(|| json!({"section": section, "lines": lines}));
                }
            });
            per.push(json!({"records": len, "sequences": total}));
            acc = acc.merge(a);
        }
        bounds.push(json!({"section": section, "alphabet": recs.len(), "max_records": k, "per_len": per}));
    }
    let summary = Summary {
        rule: "per section every sequence of <= k records over (recognised key x value class) alphabets plus unknown/indented/\
               lower-case keys and colon-less lines, decoded by every decoder that reads the section (General: 4 decoders, \
               Difficulty/Events: 3, others: 2) and compared with a table-driven interpreter written from the statement \
               (first-colon split, trimming, +-(2^31-1) limits, == 1 flags, clamps, AR-follows-OD, event precedence, break max, \
               colour R,G,B[,A], last valid wins, invalid/unknown leaves the field untouched). states = record sequences, \
               evaluations = decodes; distinct_nontrivial = distinct (section, resulting field values)"
            .into(),
        bounds: json!({"sections": bounds}),
        exhaustive: true,
        caps_hit: vec![],
        assumptions: vec![
            "number grammar = Rust std's FromStr (the statement says 'must parse'); f32 limit is the f32 nearest 2^31-1".into(),
            "bookmark list entries are unpadded integers (DESIGN section 7)".into(),
        ],
    };
    finish(&run, acc, summary)
}
