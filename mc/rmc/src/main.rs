//! rmc — bounded exhaustive exploration of rosu-map against reference models.
//!
//! usage: rmc <property-id> <quick|thorough>
//!        rmc <property-id> --replay <file>

mod engine;
mod props;

use engine::Tier;

fn main() {
    engine::install_panic_hook();
    let args: Vec<String> = std::env::args().skip(1).collect();
    if args.len() < 2 {
        eprintln!("usage: rmc <Cxx> <quick|thorough> | rmc <Cxx> --replay <file>");
        std::process::exit(3);
    }
    let id = args[0].to_uppercase();
    if args[1] == "--replay" {
        let path = args.get(2).unwrap_or_else(|| engine::machinery_error("missing replay path"));
        let f: &dyn Fn(&serde_json::Value) -> Vec<engine::Violation> = match id.as_str() {
            "C13" => &props::c13::replay,
            _ => engine::machinery_error("unknown property"),
        };
        std::process::exit(engine::replay_file(&id, path, f));
    }
    let tier = match args[1].as_str() {
        "quick" => Tier::Quick,
        "thorough" => Tier::Thorough,
        _ => engine::machinery_error("tier must be quick or thorough"),
    };
    let code = match id.as_str() {
        "C13" => props::c13::run(tier),
        _ => engine::machinery_error("unknown property"),
    };
    std::process::exit(code);
}
