//! C18 — curve computation is pure: buffers, caches and API choice do not
//! matter.  E2 product search over histories of {owned, borrowed, cached
//! computations, mutations through the accessors, cache clears} sharing one
//! `CurveBuffers`; differential oracle: every curve obtained equals
//! `Curve::new` with FRESH buffers for the current points and length.

use rosu_map::{
    section::{
        general::GameMode,
        hit_objects::{BorrowedCurve, Curve, CurveBuffers, PathControlPoint, PathType, SliderPath},
    },
    util::Pos,
};
use serde_json::{json, Value};

use super::curves::{points_json};
use crate::engine::{
    e2::{self, Product, StepOut},
    finish, guarded, run_witnesses, Acc, Run, Summary, Tier, Violation,
};

fn p(x: f32, y: f32, t: Option<PathType>) -> PathControlPoint {
    PathControlPoint {
        pos: Pos::new(x, y),
        path_type: t,
    }
}

pub fn pool() -> Vec<Vec<PathControlPoint>> {
    vec![
        vec![],
        vec![p(0., 0., Some(PathType::LINEAR))],
        vec![p(0., 0., Some(PathType::LINEAR)), p(100., 0., None)],
        vec![
            p(0., 0., Some(PathType::PERFECT_CURVE)),
            p(50., 50., None),
            p(100., 0., None),
        ],
        vec![
            p(0., 0., Some(PathType::BEZIER)),
            p(30., 80., None),
            p(60., -20., Some(PathType::BEZIER)),
            p(90., 40., None),
            p(120., 0., None),
        ],
        vec![
            p(0., 0., Some(PathType::CATMULL)),
            p(20., 30., None),
            p(50., 10., None),
            p(70., 60., None),
        ],
        // catmull ending in two equal points: with a long requested length the
        // length adjustment takes its "no extension" early exit
        vec![
            p(0., 0., Some(PathType::CATMULL)),
            p(20., 30., None),
            p(50., 10., None),
            p(50., 10., None),
        ],
        // one bezier segment of five points, and a perfect curve that is too flat for an arc and falls back to
        // a three-point bezier: the bezier scratch buffers shrink and grow between entries
        vec![
            p(0., 0., Some(PathType::BEZIER)),
            p(40., 90., None),
            p(80., -60., None),
            p(120., 70., None),
            p(160., 0., None),
        ],
        vec![
            p(0., 0., Some(PathType::PERFECT_CURVE)),
            p(50., 0., None),
            p(100., 0., None),
        ],
        // the same bezier shape at two origins, with coordinates that are not dyadic: flattening rounds
        // differently at the two places, so a result carried over from the translate is visible
        translate(&SHAPE, 0.0, 0.0),
        translate(&SHAPE, -SHAPE[0].0, -SHAPE[0].1),
    ]
}

const SHAPE: [(f32, f32); 5] = [(301.37, 187.61), (412.93, 95.18), (188.44, 22.77), (355.09, 301.53), (467.71, 140.26)];

fn translate(shape: &[(f32, f32)], dx: f32, dy: f32) -> Vec<PathControlPoint> {
    shape
        .iter()
        .enumerate()
        .map(|(i, &(x, y))| p(x + dx, y + dy, (i == 0).then_some(PathType::BEZIER)))
        .collect()
}

const LENS: [Option<f64>; 4] = [None, Some(7.5), Some(500.0), Some(0.0)];

#[derive(Clone, Debug, PartialEq)]
pub enum Op {
    Owned(u8, u8),
    Borrowed(u8, u8),
    PathCurve,
    PathCurveBufs,
    PathBorrowed,
    Push,
    Pop,
    Overwrite(u8),
    SetLen(u8),
    Clear,
    /// `Clone::clone_from` a path built from pool entry .0 with length class .1; .2: the source has its curve cached
    CloneFrom(u8, u8, bool),
}

#[derive(Clone)]
pub struct S {
    bufs: CurveBuffers,
    path: SliderPath,
}

fn same(a: &Curve, b: &Curve) -> bool {
    let bits = |c: &Curve| {
        (
            c.path().iter().map(|p| (p.x.to_bits(), p.y.to_bits())).collect::<Vec<_>>(),
            c.lengths().iter().map(|l| l.to_bits()).collect::<Vec<_>>(),
        )
    };
    bits(a) == bits(b)
}

fn fresh(mode: GameMode, pts: &[PathControlPoint], len: Option<f64>) -> Curve {
    Curve::new(mode, pts, len, &mut CurveBuffers::default())
}

fn mismatch(what: &str, got: &Curve, want: &Curve, pts: &[PathControlPoint], len: Option<f64>) -> (String, String) {
    let class = if pts.is_empty() { "stale-empty-input" } else { "impure-curve" };
    (
        class.into(),
        format!(
            "{what}: points={} len={len:?}: got path[{}] lengths[{}] dist={}, fresh computation gives path[{}] lengths[{}] dist={}",
            points_json(pts),
            got.path().len(),
            got.lengths().len(),
            got.dist(),
            want.path().len(),
            want.lengths().len(),
            want.dist()
        ),
    )
}

/// Applies one operation to the real objects and checks the oracle.
pub fn apply(s: &mut S, op: &Op, pool: &[Vec<PathControlPoint>], mode: GameMode) -> Option<(String, String)> {
    match op {
        Op::Owned(i, l) => {
            let pts = &pool[*i as usize];
            let len = LENS[*l as usize];
            let got = Curve::new(mode, pts, len, &mut s.bufs);
            let want = fresh(mode, pts, len);
            (!same(&got, &want)).then(|| mismatch("Curve::new with reused buffers", &got, &want, pts, len))
        }
        Op::Borrowed(i, l) => {
            let pts = &pool[*i as usize];
            let len = LENS[*l as usize];
            let got = BorrowedCurve::new(mode, pts, len, &mut s.bufs).to_owned_curve();
            let want = fresh(mode, pts, len);
            (!same(&got, &want)).then(|| mismatch("BorrowedCurve::new with reused buffers", &got, &want, pts, len))
        }
        Op::PathCurve => {
            let want = fresh(mode, s.path.control_points(), s.path.expected_dist());
            let got = s.path.curve().clone();
            let (pts, len) = (s.path.control_points().to_vec(), s.path.expected_dist());
            (!same(&got, &want)).then(|| mismatch("SliderPath::curve", &got, &want, &pts, len)).map(|(_, m)| ("stale-cache".into(), m))
        }
        Op::PathCurveBufs => {
            let want = fresh(mode, s.path.control_points(), s.path.expected_dist());
            let got = s.path.curve_with_bufs(&mut s.bufs).clone();
            let (pts, len) = (s.path.control_points().to_vec(), s.path.expected_dist());
            (!same(&got, &want)).then(|| mismatch("SliderPath::curve_with_bufs", &got, &want, &pts, len))
        }
        Op::PathBorrowed => {
            let want = fresh(mode, s.path.control_points(), s.path.expected_dist());
            let got = s.path.borrowed_curve(&mut s.bufs).to_owned_curve();
            let (pts, len) = (s.path.control_points().to_vec(), s.path.expected_dist());
            (!same(&got, &want)).then(|| mismatch("SliderPath::borrowed_curve", &got, &want, &pts, len))
        }
        Op::Push => {
            let n = s.path.control_points().len() as f32;
            s.path.control_points_mut().push(p(40.0 + 25.0 * n, 35.0 * n, None));
            None
        }
        Op::Pop => {
            s.path.control_points_mut().pop();
            None
        }
        Op::Overwrite(i) => {
            *s.path.control_points_mut() = pool[*i as usize].clone();
            None
        }
        Op::SetLen(l) => {
            *s.path.expected_dist_mut() = LENS[*l as usize];
            None
        }
        Op::Clear => {
            s.path.clear_curve();
            None
        }
        Op::CloneFrom(i, l, cached) => {
            let mut src = SliderPath::new(mode, pool[*i as usize].clone(), LENS[*l as usize]);
            if *cached {
                let _ = src.curve();
            }
            s.path.clone_from(&src);
            None
        }
    }
}

#[derive(Clone)]
struct Model {
    pool: std::sync::Arc<Vec<Vec<PathControlPoint>>>,
    ops: std::sync::Arc<Vec<Op>>,
    mode: GameMode,
}

pub fn ops(_tier: Tier) -> Vec<Op> {
    let n = pool().len() as u8;
    let nl = LENS.len() as u8;
    let mut v = Vec::new();
    for i in 0..n {
        for l in 0..nl {
            v.push(Op::Owned(i, l));
            v.push(Op::Borrowed(i, l));
        }
    }
    v.extend([Op::PathCurve, Op::PathCurveBufs, Op::PathBorrowed, Op::Push, Op::Pop, Op::Clear]);
    for i in 0..n {
        v.push(Op::Overwrite(i));
    }
    for l in 0..nl {
        v.push(Op::SetLen(l));
    }
    for i in 0..n {
        v.push(Op::CloneFrom(i, (i % nl) as u8, i % 2 == 0));
        v.push(Op::CloneFrom(i, ((i + 1) % nl) as u8, i % 2 == 1));
    }
    v
}

impl Product for Model {
    type S = S;
    type A = u16;
    fn name(&self) -> &'static str {
        "c18-curve-histories"
    }
    fn init(&self) -> Vec<S> {
        vec![S {
            bufs: CurveBuffers::default(),
            path: SliderPath::new(self.mode, self.pool[2].clone(), None),
        }]
    }
    fn actions(&self, _: &S, out: &mut Vec<u16>) {
        out.extend(0..self.ops.len() as u16);
    }
    fn step(&self, s: &S, a: &u16) -> StepOut<S> {
        let op = &self.ops[*a as usize];
        let mut next = s.clone();
        match guarded(|| {
            let mut n = s.clone();
            let bad = apply(&mut n, op, &self.pool, self.mode);
            (n, bad)
        }) {
            Ok((n, bad)) => {
                next = n;
                StepOut { next, bad }
            }
            Err(panic) => StepOut {
                next,
                bad: Some(("panic".into(), panic)),
            },
        }
    }
    fn key(&self, s: &S) -> String {
        format!("{:?}|{:?}", s.bufs, s.path)
    }
    fn action_json(&self, a: &u16) -> Value {
        json!(format!("{:?}", self.ops[*a as usize]))
    }
}

fn op_from_str(s: &str) -> Op {
    let nums: Vec<u8> = s
        .split(|c: char| !c.is_ascii_digit())
        .filter(|t| !t.is_empty())
        .map(|t| t.parse().unwrap())
        .collect();
    let name = s.split('(').next().unwrap();
    match name {
        "Owned" => Op::Owned(nums[0], nums[1]),
        "Borrowed" => Op::Borrowed(nums[0], nums[1]),
        "PathCurve" => Op::PathCurve,
        "PathCurveBufs" => Op::PathCurveBufs,
        "PathBorrowed" => Op::PathBorrowed,
        "Push" => Op::Push,
        "Pop" => Op::Pop,
        "Overwrite" => Op::Overwrite(nums[0]),
        "SetLen" => Op::SetLen(nums[0]),
        "CloneFrom" => Op::CloneFrom(nums[0], nums[1], s.contains("true")),
        _ => Op::Clear,
    }
}

pub fn replay(case: &Value) -> Vec<Violation> {
    let pool = pool();
    let mode = super::curves::mode_from(case["mode"].as_i64().unwrap_or(0));
    if case["kind"] == "copy" {
        let ix = |v: &Value, k: usize| v[k].as_u64().unwrap_or(0) as usize;
        let src = fresh(mode, &pool[ix(&case["src"], 0)], LENS[ix(&case["src"], 1)]);
        let mut dst = fresh(mode, &pool[ix(&case["dst"], 0)], LENS[ix(&case["dst"], 1)]);
        dst.clone_from(&src);
        if !same(&dst, &src) || !same(&src.clone(), &src) {
            return vec![Violation::new("copy-differs", "a curve overwritten through clone_from differs from its source", case.clone())];
        }
        return Vec::new();
    }
    let mut s = S {
        bufs: CurveBuffers::default(),
        path: SliderPath::new(mode, pool[2].clone(), None),
    };
    for (i, a) in case["actions"].as_array().unwrap().iter().enumerate() {
        let op = op_from_str(a.as_str().unwrap());
        if let Some((class, summary)) = apply(&mut s, &op, &pool, mode) {
            return vec![Violation::new(class, format!("step {i} {op:?}: {summary}"), case.clone())];
        }
    }
    Vec::new()
}

pub fn run(tier: Tier) -> i32 {
    let run = Run::new("C18", tier, "model_checking");
    let mut acc = Acc::new();
    run_witnesses("C18", &mut acc, &replay);
    let ops = ops(tier);
    let mut bounds = Vec::new();
    let mut capped = None;
    let modes: &[GameMode] = &[GameMode::Osu, GameMode::Mania];
    for &mode in modes {
        let model = Model {
            pool: std::sync::Arc::new(pool()),
            ops: std::sync::Arc::new(ops.clone()),
            mode,
        };
        let mut a = Acc::new();
        let depths: &[u16] = if mode == GameMode::Osu { tier.pick(&[5], &[8]) } else { tier.pick(&[4], &[7]) };
        let res = e2::run_opts("C18", model, depths, tier.pick(20_000_000, 900_000_000), tier.thorough(), &mut a);
        // attach the mode to history replays
        for list in a.viols.values_mut() {
            for v in list.iter_mut() {
                v.case["mode"] = json!(mode as i32);
            }
        }
        bounds.push(json!({"mode": mode as i32, "completed_depth": res.completed_depth,
            "capped_at_depth": res.capped_at_depth, "per_depth": res.per_depth}));
        capped = capped.or(res.capped_at_depth);
        a.evals += a.transitions;
        a.distinct_measured = Some(a.states);
        acc = acc.merge(a);
    }
    // copies: a curve overwritten through Clone::clone_from (or cloned) is the source curve, for every ordered pair
    {
        let pool = pool();
        let items: Vec<(usize, usize)> = (0..pool.len()).flat_map(|i| (0..LENS.len()).map(move |l| (i, l))).collect();
        let n = items.len() as u64;
        let a = crate::engine::par_range(n * n * modes.len() as u64, |idx, acc| {
            let mode = modes[(idx % modes.len() as u64) as usize];
            let k = idx / modes.len() as u64;
            let ((i, l), (j, m)) = (items[(k / n) as usize], items[(k % n) as usize]);
            acc.evals += 1;
            acc.transitions += 2;
            let src = fresh(mode, &pool[j], LENS[m]);
            let mut dst = fresh(mode, &pool[i], LENS[l]);
            dst.clone_from(&src);
            let copy = src.clone();
            if !same(&dst, &src) || !same(&copy, &src) {
                acc.violation(Violation::new(
                    "copy-differs",
                    format!("curve of pool entry {j} (len {:?}) cloned over the curve of entry {i} (len {:?}) in {mode:?}: path[{}] lengths[{}] vs source path[{}] lengths[{}]",
                        LENS[m], LENS[l], dst.path().len(), dst.lengths().len(), src.path().len(), src.lengths().len()),
                    json!({"kind": "copy", "mode": mode as i32, "dst": [i, l], "src": [j, m]}),
                ));
            }
        });
        acc = acc.merge(a);
    }
    acc.sample(|| json!({"history": ["Borrowed(2, 0)", "Borrowed(0, 0)", "PathCurveBufs", "Push", "PathCurve"]}));
    let summary = Summary {
        rule: format!(
            "stateright BFS over (shared CurveBuffers, one SliderPath with its cache); {} operations: owned/borrowed \
             computation of every pool entry x requested length, the three SliderPath curve getters, push/pop/overwrite \
             through control_points_mut, expected_dist_mut, clear_curve, Clone::clone_from another path; every curve returned is compared bit-wise with \
             Curve::new on fresh buffers for the CURRENT points/length; every ordered pair of (pool entry, length) curves \
             copied over one another with clone_from / clone equals its source. distinct_nontrivial = distinct canonical \
             (buffers, path, cache) states",
            ops.len()
        ),
        bounds: json!({"operations": ops.len(), "pool": pool().len(), "per_mode": bounds}),
        exhaustive: capped.is_none(),
        caps_hit: capped.map(|d| vec![format!("state cap at depth {d}")]).unwrap_or_default(),
        assumptions: vec![
            "Debug output of CurveBuffers and SliderPath is a complete state description".into(),
            "pool of nine control-point lists (empty, single, linear, perfect, 2-segment bezier, two catmull, 5-point bezier, collinear perfect)".into(),
        ],
    };
    finish(&run, acc, summary)
}
