//! C17 — computed paths follow the exact curves within tolerance.
//! E1: exhaustive small integer grids per segment type (and two-segment
//! combinations); the real natural-length path is compared with the exact
//! curve evaluated in f64 (symmetric Hausdorff distance).

use rosu_map::{
    section::{
        general::GameMode,
        hit_objects::{Curve, CurveBuffers, PathControlPoint, PathType, SplineType},
    },
    util::Pos,
};
use serde_json::{json, Value};

use super::curves::{
    arc_dense, arc_through, bezier_dense, catmull_dense, catmull_sampling_bound, directed, dist2, max_abs, mode_from,
    p2, point_polyline, points_from_json, points_json, Family, Layout, P2,
};
use crate::engine::{finish, guarded, par_range, run_witnesses, Acc, Run, Summary, Tier, Violation};

const BEZIER_BOUND: f64 = 0.25;
const ARC_BOUND: f64 = 0.4;
const OSU_CATMULL_EXTRA: f64 = 6.0;
/// error budget of the dense exact polylines
const DENSE_ERR: f64 = 0.005;

fn slack(pts: &[PathControlPoint]) -> f64 {
    1e-4 + 2e-5 * max_abs(pts) + 2.0 * DENSE_ERR
}

fn kind_of(t: Option<PathType>) -> SplineType {
    t.map_or(SplineType::Linear, |t| t.kind)
}

/// Exact curve of one segment as a dense polyline plus the approximation
/// bound that applies to it.  `None` for the arc means "either arc or bezier
/// is acceptable" is handled by the caller.
enum Exact {
    Poly(Vec<P2>, f64),
    /// arc expected; bezier fallback expected; or undecidable near the 1000
    /// sub-point limit (both acceptable)
    Arc { arc: Vec<P2>, bezier: Vec<P2>, fallback: Fallback },
}

#[derive(PartialEq, Clone, Copy, Debug)]
enum Fallback {
    No,
    Yes,
    Either,
}

fn bezier_exact(ctrl: &[P2]) -> Vec<P2> {
    let n = ctrl.len();
    if n < 3 {
        return ctrl.to_vec();
    }
    let mut d2: f64 = 0.0;
    for w in ctrl.windows(3) {
        d2 = d2.max(dist2((w[0].0 + w[2].0, w[0].1 + w[2].1), (2.0 * w[1].0, 2.0 * w[1].1)));
    }
    let b2 = (n * (n - 1)) as f64 * d2;
    let m = ((b2 / 8.0 / DENSE_ERR).sqrt().ceil() as usize).clamp(16, 8192);
    bezier_dense(ctrl, m)
}

fn segment_exact(kind: SplineType, seg: &[PathControlPoint], mode: GameMode) -> Exact {
    let ctrl: Vec<P2> = seg.iter().map(|p| p2(p.pos)).collect();
    match kind {
        SplineType::Linear => Exact::Poly(ctrl, 0.0),
        SplineType::BSpline => Exact::Poly(bezier_exact(&ctrl), BEZIER_BOUND),
        SplineType::Catmull => {
            let bound = catmull_sampling_bound(&ctrl) + if mode == GameMode::Osu { OSU_CATMULL_EXTRA } else { 0.0 };
            // dense: per span enough samples for DENSE_ERR
            let per = ((catmull_sampling_bound(&ctrl) * 2500.0 / DENSE_ERR).sqrt().ceil() as usize).clamp(8, 2048);
            Exact::Poly(catmull_dense(&ctrl, per), bound)
        }
        SplineType::PerfectCurve => {
            if ctrl.len() != 3 {
                return Exact::Poly(bezier_exact(&ctrl), BEZIER_BOUND);
            }
            let (a, b, c) = (ctrl[0], ctrl[1], ctrl[2]);
            let cross = (b.1 - a.1) * (c.0 - a.0) - (b.0 - a.0) * (c.1 - a.1);
            let bez = bezier_exact(&ctrl);
            if cross == 0.0 {
                return Exact::Arc { arc: Vec::new(), bezier: bez, fallback: Fallback::Yes };
            }
            let Some(arc) = arc_through(a, b, c) else {
                return Exact::Arc { arc: Vec::new(), bezier: bez, fallback: Fallback::Yes };
            };
            // sub-point count the tolerance asks for
            let sweep = arc.sweep.abs();
            let need = if 2.0 * arc.radius <= 0.1 {
                2.0
            } else {
                (sweep / (2.0 * (1.0 - 0.1 / arc.radius).acos())).ceil().max(2.0)
            };
            let fallback = if need >= 1010.0 {
                Fallback::Yes
            } else if need <= 990.0 {
                Fallback::No
            } else {
                Fallback::Either
            };
            let step = 2.0 * (1.0 - (DENSE_ERR / arc.radius).min(1.0)).acos();
            let m = ((sweep / step.max(1e-9)).ceil() as usize).clamp(8, 20_000);
            Exact::Arc { arc: arc_dense(&arc, m), bezier: bez, fallback }
        }
    }
}

fn path_p2(c: &Curve) -> Vec<P2> {
    c.path().iter().map(|p| p2(*p)).collect()
}

fn sym(path: &[P2], exact: &[P2]) -> f64 {
    directed(path, exact, 4).max(directed(exact, path, 1))
}

fn case_json(mode: GameMode, pts: &[PathControlPoint]) -> Value {
    json!({"mode": mode as i32, "points": points_json(pts)})
}

/// Splits control points into segments exactly as the statement describes: a
/// typed point ends the current segment and starts the next.
fn segments(pts: &[PathControlPoint]) -> Vec<(SplineType, Vec<PathControlPoint>)> {
    let mut out = Vec::new();
    let mut start = 0;
    for i in 1..pts.len() {
        if pts[i].path_type.is_some() || i == pts.len() - 1 {
            out.push((kind_of(pts[start].path_type), pts[start..=i].to_vec()));
            start = i;
        }
    }
    out
}

pub fn check_shape(mode: GameMode, pts: &[PathControlPoint], bufs: &mut CurveBuffers, acc: &mut Acc) {
    let _g = crate::engine::watch::guard("points", |s| s.push_str(&format!("{mode:?} {}", points_json(pts))));
    acc.evals += 1;
    acc.transitions += 1;
    let c = Curve::new(mode, pts, None, bufs);
    let path = path_p2(&c);
    let sl = slack(pts);
    let viol = |class: &str, msg: String, acc: &mut Acc| {
        acc.violation(Violation::new(
            class,
            format!("{mode:?} {}: {msg}", points_json(pts)),
            case_json(mode, pts),
        ));
    };
    if path.is_empty() || path.iter().any(|p| !p.0.is_finite() || !p.1.is_finite()) {
        viol("non-finite", format!("path {:?}", c.path()), acc);
        return;
    }
    let segs = segments(pts);
    if segs.is_empty() {
        return;
    }
    // exact curve = concatenation of the exact segments; the bound is the largest one
    let mut exact: Vec<P2> = Vec::new();
    let mut bound: f64 = 0.0;
    let mut either: Option<(Vec<P2>, Vec<P2>)> = None; // two admissible exact curves
    let mut alt: Vec<P2> = Vec::new();
    for (kind, seg) in &segs {
        match segment_exact(*kind, seg, mode) {
            Exact::Poly(p, b) => {
                exact.extend(p.iter().copied());
                alt.extend(p);
                bound = bound.max(b);
            }
            Exact::Arc { arc, bezier, fallback } => match fallback {
                Fallback::No => {
                    exact.extend(arc.iter().copied());
                    alt.extend(arc);
                    bound = bound.max(ARC_BOUND);
                }
                Fallback::Yes => {
                    exact.extend(bezier.iter().copied());
                    alt.extend(bezier);
                    bound = bound.max(BEZIER_BOUND);
                }
                Fallback::Either => {
                    exact.extend(arc);
                    alt.extend(bezier);
                    bound = bound.max(ARC_BOUND);
                    either = Some((Vec::new(), Vec::new()));
                }
            },
        }
    }
    let mut h = sym(&path, &exact);
    if either.is_some() {
        h = h.min(sym(&path, &alt));
    }
    // three-point arcs are evaluated as centre + radius * (cos, sin) in f32: that alone loses about radius * 2^-23 px.
    // Below a radius of 10^6 this (< 0.5 px) is part of the f32 slack; from 10^6 on it is the recorded finding, which
    // also covers the collapse to the chord once 1 - tolerance / radius rounds to 1 (deviation = the arc's sagitta)
    let arc: Option<super::curves::Arc> = (segs.len() == 1 && segs[0].0 == SplineType::PerfectCurve && segs[0].1.len() == 3)
        .then(|| arc_through(p2(segs[0].1[0].pos), p2(segs[0].1[1].pos), p2(segs[0].1[2].pos)))
        .flatten();
    let f32_term = arc.as_ref().map_or(0.0, |a| 4.0 * a.radius / 8_388_608.0);
    let sl = sl + arc.as_ref().filter(|a| a.radius < 1e6).map_or(0.0, |_| f32_term);
    let sagitta = arc.as_ref().map_or(0.0, |a| a.radius * (1.0 - (a.sweep.abs() / 2.0).cos()));
    let f32_loss = |excess: f64| arc.as_ref().is_some_and(|a| a.radius >= 1e6 && excess <= f32_term + sagitta + 1.0);
    if h > bound + sl {
        let class = match segs.iter().map(|s| s.0).find(|k| *k != SplineType::Linear) {
            _ if f32_loss(h) => "huge-radius-arc-f32-rounding",
            _ if segs.len() > 1 => "multi-segment-deviation",
            Some(SplineType::BSpline) => "bezier-deviation",
            Some(SplineType::PerfectCurve) => "arc-deviation",
            Some(SplineType::Catmull) => "catmull-deviation",
            _ => "linear-deviation",
        };
        viol(class, format!("Hausdorff distance {h:.4} > bound {:.4} (path has {} points)", bound + sl, path.len()), acc);
    }
    // single-segment corollaries
    if segs.len() == 1 {
        let (kind, seg) = &segs[0];
        let first = p2(seg[0].pos);
        let last = p2(seg[seg.len() - 1].pos);
        let tol = sl;
        if dist2(path[0], first) > tol {
            let class = if f32_loss(dist2(path[0], first)) { "huge-radius-arc-f32-rounding" } else { "segment-start" };
            viol(class, format!("path starts at {:?}, first control point {first:?}", path[0]), acc);
        }
        if dist2(*path.last().unwrap(), last) > tol {
            let class = if f32_loss(dist2(*path.last().unwrap(), last)) { "huge-radius-arc-f32-rounding" } else { "segment-end" };
            viol(class, format!("path ends at {:?}, last control point {last:?}", path.last()), acc);
        }
        if *kind == SplineType::Linear {
            let want: Vec<Pos> = seg.iter().map(|p| p.pos).collect();
            if !super::curves::same_points(c.path(), want.as_slice()) {
                viol("linear-not-polyline", format!("{:?}", c.path()), acc);
            }
        }
        if *kind == SplineType::PerfectCurve {
            // fallback cases equal the Bezier of the same points exactly
            if let Exact::Arc { fallback: Fallback::Yes, .. } = segment_exact(*kind, seg, mode) {
                let mut b = seg.clone();
                b[0].path_type = Some(PathType::BEZIER);
                let bc = Curve::new(mode, &b, None, bufs);
                if !super::curves::same_points(bc.path(), c.path()) {
                    viol("arc-fallback", "collinear/enormous perfect curve differs from the bezier of the same points".into(), acc);
                }
            }
        }
    } else if segs.len() == 2 {
        // joint vertex emitted identically by both segments appears once
        let exact_end = matches!(segs[0].0, SplineType::Linear | SplineType::BSpline);
        let exact_start = matches!(segs[1].0, SplineType::Linear | SplineType::BSpline | SplineType::Catmull);
        let distinct_seg2 = segs[1].1.iter().any(|p| p.pos != segs[1].1[0].pos);
        if exact_end && exact_start && distinct_seg2 {
            let first_alone = Curve::new(mode, &segs[0].1, None, bufs);
            let j = first_alone.path().len();
            let joint = segs[1].1[0].pos;
            if c.path().len() > j && c.path()[j - 1] == joint && c.path()[j] == joint {
                // a legitimately repeated point only if segment 2 itself starts with a repeated vertex
                let second_alone = Curve::new(mode, &segs[1].1, None, bufs);
                let dup_in_second = second_alone.path().len() >= 2 && second_alone.path()[0] == second_alone.path()[1];
                if !dup_in_second {
                    viol("joint-duplicated", format!("joint vertex {joint:?} appears twice at index {}", j - 1), acc);
                }
            }
        }
    }
    acc.nontrivial(&(
        mode as u8,
        path.len(),
        (h * 1e4) as i64,
        c.path().last().map(|p| (p.x.to_bits(), p.y.to_bits())),
    ));
}

fn single(kind: PathType, n: usize) -> Vec<Layout> {
    let mut l = vec![None; n];
    l[0] = Some(kind);
    vec![l]
}

fn two_seg(n: usize) -> Vec<Layout> {
    let mut out = Vec::new();
    for t0 in super::curves::KINDS {
        for j in 1..n - 1 {
            for t1 in super::curves::KINDS {
                let mut l = vec![None; n];
                l[0] = Some(t0);
                l[j] = Some(t1);
                out.push(l);
            }
        }
    }
    out
}

pub fn families(tier: Tier) -> Vec<(Family, Vec<GameMode>)> {
    let t = tier.thorough();
    let any = vec![GameMode::Osu];
    let both = vec![GameMode::Osu, GameMode::Taiko];
    let mut v = Vec::new();
    let o = (0.0f32, 0.0f32);
    // arcs
    for scale in [1.0f32, 37.5, 500.0] {
        v.push((Family { n: 3, g: if t { 8 } else { 4 }, scale, origin: o, layouts: single(PathType::PERFECT_CURVE, 3) }, any.clone()));
    }
    v.push((Family { n: 3, g: if t { 2 } else { 1 }, scale: 30_000.0, origin: o, layouts: single(PathType::PERFECT_CURVE, 3) }, any.clone()));
    v.push((Family { n: 3, g: 3, scale: 0.02, origin: (0.01, 0.0), layouts: single(PathType::PERFECT_CURVE, 3) }, any.clone()));
    // bezier
    for n in 2..=(if t { 5 } else { 4 }) {
        for scale in [1.0f32, 37.5, 500.0] {
            let g = if n >= 5 && scale != 37.5 { 1 } else { 2 };
            v.push((Family { n, g, scale, origin: o, layouts: single(PathType::BEZIER, n) }, any.clone()));
        }
    }
    if t {
        v.push((Family { n: 6, g: 1, scale: 100.0, origin: o, layouts: single(PathType::BEZIER, 6) }, any.clone()));
    }
    // catmull (osu simplification vs none)
    for n in 2..=4 {
        for scale in [1.0f32, 37.5, 500.0] {
            let g = if n == 4 && !(t && scale == 37.5) { 1 } else { 2 };
            v.push((Family { n, g, scale, origin: o, layouts: single(PathType::CATMULL, n) }, both.clone()));
        }
    }
    // linear and perfect with != 3 points
    v.push((Family { n: 3, g: 2, scale: 37.5, origin: o, layouts: single(PathType::LINEAR, 3) }, any.clone()));
    v.push((Family { n: 4, g: 1, scale: 37.5, origin: o, layouts: single(PathType::PERFECT_CURVE, 4) }, any.clone()));
    v.push((Family { n: 2, g: 2, scale: 37.5, origin: o, layouts: single(PathType::PERFECT_CURVE, 2) }, any.clone()));
    // a leading run of control points without a type is a straight polyline (hand-built paths, `PathControlPoint::new`)
    v.push((Family { n: 3, g: 2, scale: 37.5, origin: o, layouts: vec![vec![None, None, None]] }, both.clone()));
    v.push((Family { n: 4, g: 1, scale: 40.0, origin: o, layouts: vec![vec![None, None, Some(PathType::BEZIER), None], vec![None, Some(PathType::CATMULL), None, None]] }, both.clone()));
    // two segments sharing a joint
    v.push((Family { n: 4, g: 1, scale: 40.0, origin: o, layouts: two_seg(4) }, both.clone()));
    if t {
        v.push((Family { n: 5, g: 1, scale: 40.0, origin: o, layouts: two_seg(5) }, both.clone()));
        v.push((Family { n: 4, g: 2, scale: 9.0, origin: o, layouts: two_seg(4) }, any.clone()));
    }
    v
}

/// fixed large shapes: enormous perfect curves must fall back to bezier
fn fixed_shapes() -> Vec<Vec<PathControlPoint>> {
    let p = |x: f32, y: f32, t: Option<PathType>| PathControlPoint { pos: Pos::new(x, y), path_type: t };
    let v = vec![
        vec![p(0., 0., Some(PathType::PERFECT_CURVE)), p(100_000., 0., None), p(50_000., -50_000., None)],
        vec![p(-100_000., 0., Some(PathType::PERFECT_CURVE)), p(0., 100_000., None), p(100_000., 0., None)],
        vec![p(0., 0., Some(PathType::PERFECT_CURVE)), p(60_000., 1., None), p(120_000., 0., None)],
        vec![p(0., 0., Some(PathType::PERFECT_CURVE)), p(0.01, 0.01, None), p(0.02, 0.0, None)],
        vec![p(0., 0., Some(PathType::BEZIER)), p(100., 300., None), p(200., -300., None), p(300., 300., None),
             p(400., -300., None), p(500., 300., None), p(600., -300., None), p(700., 300., None), p(800., 0., None), p(900., 50., None)],
    ];
    // many closely spaced anchors along a gentle bend: locally "flat" control polygons that are far from straight
    let mut v = v;
    for r in [50.0f64, 150.0, 200.0, 400.0] {
        for n in [5usize, 6, 7, 8, 9, 10] {
            for spacing in [2.0f64, 3.0, 4.0, 5.0, 8.0, 12.0] {
                let step = spacing / r;
                if step * n as f64 > 5.5 {
                    continue;
                }
                for ty in [PathType::BEZIER, PathType::PERFECT_CURVE] {
                    let pts: Vec<PathControlPoint> = (0..n)
                        .map(|i| {
                            let a = step * i as f64;
                            p((r * a.sin()) as f32, (r * (1.0 - a.cos())) as f32, if i == 0 { Some(ty) } else { None })
                        })
                        .collect();
                    v.push(pts);
                }
            }
        }
    }
    v.extend(super::curves::near_collinear_arcs());
    v.extend(super::curves::far_almost_collinear_arcs());
    v
}

pub fn replay(case: &Value) -> Vec<Violation> {
    let mode = mode_from(case["mode"].as_i64().unwrap_or(0));
    let pts = points_from_json(&case["points"]);
    let mut acc = Acc::new();
    check_shape(mode, &pts, &mut CurveBuffers::default(), &mut acc);
    acc.viols.into_values().flatten().collect()
}

pub fn run(tier: Tier) -> i32 {
    let run = Run::new("C17", tier, "model_checking");
    let mut acc = Acc::new();
    run_witnesses("C17", &mut acc, &replay);
    let mut bounds = Vec::new();
    let fixed = fixed_shapes();
    let a = par_range(fixed.len() as u64, |idx, acc| {
        let s = &fixed[idx as usize];
        let mut bufs = CurveBuffers::default();
        acc.states += 1;
        if let Err(p) = guarded(|| check_shape(GameMode::Osu, s, &mut bufs, acc)) {
            acc.violation(Violation::new("panic", p, case_json(GameMode::Osu, s)));
        }
    });
    acc = acc.merge(a);
    for (fam, modes) in families(tier) {
        let total = fam.total() * modes.len() as u64;
        let t0 = std::time::Instant::now();
        let a = par_range(total, |idx, acc| {
            let mode = modes[(idx % modes.len() as u64) as usize];
            let pts = fam.get(idx / modes.len() as u64);
            acc.states += 1;
            let mut bufs = CurveBuffers::default();
            if let Err(p) = guarded(|| check_shape(mode, &pts, &mut bufs, acc)) {
                acc.violation(Violation::new("panic", format!("{mode:?} {}: {p}", points_json(&pts)), case_json(mode, &pts)));
            }
            if idx % 50_021 == 0 {
                acc.sample(|| case_json(mode, &pts));
            }
        });
        bounds.push(json!({"points": fam.n, "grid": fam.g, "scale": fam.scale, "layouts": fam.layouts.len(),
            "first_layout": format!("{:?}", fam.layouts[0].iter().map(|t| t.map(super::curves::kind_letter)).collect::<Vec<_>>()),
            "shapes": fam.total(), "modes": modes.len(), "wall_s": t0.elapsed().as_secs_f64()}));
        acc = acc.merge(a);
    }
    let _ = point_polyline;
    let summary = Summary {
        rule: "every control-point list of each family (integer grid x scale, one segment of each type, and all two-segment \
               type pairs) computed by the real Curve::new at natural length; symmetric Hausdorff distance to the exact curve \
               (f64 de Casteljau / circumcircle arc / uniform Catmull-Rom / polyline, densely sampled to 0.005) must be below \
               bezier 0.25, arc 0.4, Catmull sampling bound (+6 in osu mode) plus an f32 slack; segment start/end at its \
               control points; collinear or >= 1000-sub-point perfect curves equal the bezier of the same points; an exactly \
               shared joint vertex appears once; plus fixed shapes: enormous / tiny perfect curves, a 10-point bezier, and beziers of \
               5..10 anchors (the statement's range) spaced 2..12 px along arcs of radius 50..400, and almost straight three-point perfect curves near (sagitta 0..1 px) and far from the origin (coordinates up to 37 000). distinct_nontrivial = distinct (mode, path length, distance, end point)"
            .into(),
        bounds: json!({"families": bounds, "fixed_shapes": fixed_shapes().len()}),
        exhaustive: true,
        caps_hit: vec![],
        assumptions: vec![
            "bounds derived from the tolerances: bezier 0.25, arc 4 x 0.1, catmull max|P''|/8/50^2 (+6 px osu simplification)".into(),
            "f32 slack 1e-4 + 2e-5 x max|coordinate| + 0.01".into(),
        ],
    };
    finish(&run, acc, summary)
}
