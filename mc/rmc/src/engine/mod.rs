//! Shared machinery: accumulators, evidence, findings, replay artefacts.
//!
//! Every property module enumerates its space (E1: nested products / choice
//! trees, E2: stateright product search), feeds an [`Acc`] and finally calls
//! [`finish`], which writes the evidence file, classifies violations against
//! `known_findings.json`, writes replay artefacts and decides the exit code.

pub mod e2;
pub mod isolate;
pub mod tree;
pub mod watch;

use std::{
    collections::{BTreeMap, HashSet},
    fs,
    hash::{Hash, Hasher},
    panic::{self, AssertUnwindSafe},
    path::PathBuf,
    sync::Mutex,
    time::Instant,
};

use serde_json::{json, Map, Value};

pub const VERIF_DIR: &str = "/verif";

/// where evidence and replay files go (overridable for development runs that must not touch the committed evidence)
pub fn out_dir() -> String {
    std::env::var("RMC_OUT_DIR").unwrap_or_else(|_| VERIF_DIR.to_string())
}

#[derive(Copy, Clone, Debug, PartialEq, Eq)]
pub enum Tier {
    Quick,
    Thorough,
}

impl Tier {
    pub fn as_str(self) -> &'static str {
        match self {
            Tier::Quick => "quick",
            Tier::Thorough => "thorough",
        }
    }
    pub fn thorough(self) -> bool {
        self == Tier::Thorough
    }
    /// Pick the quick or thorough value.
    pub fn pick<T>(self, q: T, t: T) -> T {
        match self {
            Tier::Quick => q,
            Tier::Thorough => t,
        }
    }
}

/// One failing case: `class` is the narrow classifier used to match known
/// findings, `case` is the replayable input (property specific JSON).
#[derive(Clone, Debug)]
pub struct Violation {
    pub class: String,
    pub summary: String,
    pub case: Value,
}

impl Violation {
    pub fn new(class: impl Into<String>, summary: impl Into<String>, case: Value) -> Self {
        Self {
            class: class.into(),
            summary: summary.into(),
            case,
        }
    }
}

const MAX_DISTINCT: usize = 6_000_000;
const MAX_VIOL_PER_CLASS: usize = 3;
const MAX_SAMPLES: usize = 6;

/// Mergeable accumulator (one per worker, reduced at the end).
#[derive(Default)]
pub struct Acc {
    /// complete executions run on the implementation and compared
    pub evals: u64,
    /// real-code calls (edges)
    pub transitions: u64,
    /// distinct tree nodes / canonical states
    pub states: u64,
    /// distinct observation hashes among non-trivial cases
    pub nontrivial: HashSet<u64>,
    pub nontrivial_saturated: bool,
    /// set by E2 runs: distinct canonical states measured by the checker
    pub distinct_measured: Option<u64>,
    pub samples: Vec<Value>,
    pub viols: BTreeMap<String, Vec<Violation>>,
    pub viol_counts: BTreeMap<String, u64>,
    pub counters: BTreeMap<&'static str, u64>,
}

impl Acc {
    pub fn new() -> Self {
        Self::default()
    }

    pub fn count(&mut self, name: &'static str, n: u64) {
        *self.counters.entry(name).or_insert(0) += n;
    }

    pub fn nontrivial_hash(&mut self, h: u64) {
        if self.nontrivial.len() < MAX_DISTINCT {
            self.nontrivial.insert(h);
        } else {
            self.nontrivial_saturated = true;
        }
    }

    pub fn nontrivial<T: Hash>(&mut self, obs: &T) {
        self.nontrivial_hash(hash64(obs));
    }

    pub fn sample(&mut self, f: impl FnOnce() -> Value) {
        if self.samples.len() < MAX_SAMPLES {
            self.samples.push(f());
        }
    }

    pub fn violation(&mut self, v: Violation) {
        *self.viol_counts.entry(v.class.clone()).or_insert(0) += 1;
        let list = self.viols.entry(v.class.clone()).or_default();
        if list.len() < MAX_VIOL_PER_CLASS {
            list.push(v);
        }
    }

    pub fn merge(mut self, other: Acc) -> Acc {
        self.evals += other.evals;
        self.transitions += other.transitions;
        self.states += other.states;
        self.nontrivial_saturated |= other.nontrivial_saturated;
        self.distinct_measured = match (self.distinct_measured, other.distinct_measured) {
            (Some(a), Some(b)) => Some(a + b),
            (a, b) => a.or(b),
        };
        if self.nontrivial.len() < other.nontrivial.len() {
            let mut o = other.nontrivial;
            for h in self.nontrivial.drain() {
                if o.len() < MAX_DISTINCT {
                    o.insert(h);
                } else {
                    self.nontrivial_saturated = true;
                }
            }
            self.nontrivial = o;
        } else {
            for h in other.nontrivial {
                if self.nontrivial.len() < MAX_DISTINCT {
                    self.nontrivial.insert(h);
                } else {
                    self.nontrivial_saturated = true;
                }
            }
        }
        for s in other.samples {
            if self.samples.len() < MAX_SAMPLES {
                self.samples.push(s);
            }
        }
        for (k, n) in other.viol_counts {
            *self.viol_counts.entry(k).or_insert(0) += n;
        }
        for (k, vs) in other.viols {
            let list = self.viols.entry(k).or_default();
            for v in vs {
                if list.len() < MAX_VIOL_PER_CLASS {
                    list.push(v);
                }
            }
        }
        for (k, n) in other.counters {
            *self.counters.entry(k).or_insert(0) += n;
        }
        self
    }
}

pub fn hash64<T: Hash + ?Sized>(t: &T) -> u64 {
    // fixed keys: deterministic across runs
    #[allow(deprecated)]
    let mut h = std::hash::SipHasher::new_with_keys(0x5eed, 0xc0ffee);
    t.hash(&mut h);
    h.finish()
}

pub fn hex(bytes: &[u8]) -> String {
    let mut s = String::with_capacity(bytes.len() * 2);
    for b in bytes {
        s.push_str(&format!("{b:02x}"));
    }
    s
}

pub fn unhex(s: &str) -> Vec<u8> {
    (0..s.len() / 2)
        .map(|i| u8::from_str_radix(&s[2 * i..2 * i + 2], 16).expect("bad hex in replay case"))
        .collect()
}

/// Shows bytes as text if printable, for summaries.
pub fn show_bytes(b: &[u8]) -> String {
    let s = String::from_utf8_lossy(b);
    let s: String = s.chars().take(300).collect();
    format!("{s:?}")
}

// ---------------------------------------------------------------------------
// panic capture

static PANIC_MSG: Mutex<Option<String>> = Mutex::new(None);

thread_local! {
    static LAST_PANIC: std::cell::RefCell<Option<String>> = const { std::cell::RefCell::new(None) };
}

pub fn install_panic_hook() {
    panic::set_hook(Box::new(|info| {
        let loc = info
            .location()
            .map(|l| format!("{}:{}", l.file(), l.line()))
            .unwrap_or_default();
        let msg = if let Some(s) = info.payload().downcast_ref::<&str>() {
            (*s).to_string()
        } else if let Some(s) = info.payload().downcast_ref::<String>() {
            s.clone()
        } else {
            "<non-string panic>".to_string()
        };
        let full = format!("{msg} @ {loc}");
        LAST_PANIC.with(|p| *p.borrow_mut() = Some(full.clone()));
        if std::env::var_os("RMC_SHOW_PANICS").is_some() {
            eprintln!("[panic] {full}");
        }
        let _ = PANIC_MSG.lock().map(|mut g| *g = Some(full));
    }));
}

/// Run `f`, turning a panic into `Err(message @ location)`.
pub fn guarded<R>(f: impl FnOnce() -> R) -> Result<R, String> {
    match panic::catch_unwind(AssertUnwindSafe(f)) {
        Ok(r) => Ok(r),
        Err(_) => Err(LAST_PANIC
            .with(|p| p.borrow_mut().take())
            .unwrap_or_else(|| "panic (no message)".into())),
    }
}

// ---------------------------------------------------------------------------
// run context / finish

pub struct Run {
    pub prop: &'static str,
    pub tier: Tier,
    pub level: &'static str,
    pub start: Instant,
    pub seed: i64,
}

impl Run {
    pub fn new(prop: &'static str, tier: Tier, level: &'static str) -> Self {
        let seed = std::env::var("VERIF_SEED")
            .ok()
            .and_then(|s| s.parse().ok())
            .unwrap_or(0);
        watch::start(prop, if tier.thorough() { 600 } else { 120 });
        Self {
            prop,
            tier,
            level,
            start: Instant::now(),
            seed,
        }
    }
}

pub struct Summary {
    pub rule: String,
    pub bounds: Value,
    pub exhaustive: bool,
    pub caps_hit: Vec<String>,
    pub assumptions: Vec<String>,
}

#[derive(Clone, Debug)]
pub struct Finding {
    pub property: String,
    pub class: String,
    pub status: String,
    pub what: String,
    pub commit: Option<String>,
    pub case: Option<Value>,
}

pub fn load_findings() -> Vec<Finding> {
    let path = format!("{VERIF_DIR}/known_findings.json");
    let Ok(text) = fs::read_to_string(&path) else {
        return Vec::new();
    };
    let v: Value = match serde_json::from_str(&text) {
        Ok(v) => v,
        Err(e) => machinery_error(&format!("known_findings.json does not parse: {e}")),
    };
    v["findings"]
        .as_array()
        .cloned()
        .unwrap_or_default()
        .into_iter()
        .map(|f| Finding {
            property: f["property"].as_str().unwrap_or("").to_string(),
            class: f["class"].as_str().unwrap_or("").to_string(),
            status: f["status"].as_str().unwrap_or("").to_string(),
            what: f["what"].as_str().unwrap_or("").to_string(),
            commit: f["commit"].as_str().map(str::to_string),
            case: f.get("case").cloned().filter(|c| !c.is_null()),
        })
        .collect()
}

pub fn machinery_error(msg: &str) -> ! {
    eprintln!("MACHINERY-ERROR: {msg}");
    std::process::exit(3)
}

/// Re-executes every witness listed for this property in known_findings.json
/// (known and fixed) through the property's own `replay` function and records
/// the outcome in `acc`.  Fixed witnesses are plain regression cases; known
/// witnesses make sure the KNOWN-FINDING line is printed by every tier.
pub fn run_witnesses(prop: &str, acc: &mut Acc, replay: &dyn Fn(&Value) -> Vec<Violation>) {
    for f in load_findings().into_iter().filter(|f| f.property == prop) {
        let Some(case) = f.case.clone() else { continue };
        let viols = match guarded(|| replay(&case)) {
            Ok(v) => v,
            Err(p) => vec![Violation::new(
                "replay-panic",
                format!("replay of witness panicked: {p}"),
                case.clone(),
            )],
        };
        acc.evals += 1;
        acc.count("witness_replays", 1);
        if f.status == "known" && !viols.iter().any(|v| v.class == f.class) {
            eprintln!(
                "NOTE: witness of known finding property={prop} class={} no longer reproduces",
                f.class
            );
        }
        for v in viols {
            acc.violation(v);
        }
    }
}

/// Final step of every check. Returns the process exit code.
pub fn finish(run: &Run, acc: Acc, summary: Summary) -> i32 {
    let findings = load_findings();
    let known: Vec<&Finding> = findings
        .iter()
        .filter(|f| f.property == run.prop && f.status == "known")
        .collect();

    let mut exit = 0;
    let mut unknown_total = 0u64;
    let mut known_total = 0u64;
    let mut viol_report = Vec::new();

    for (class, list) in &acc.viols {
        let count = acc.viol_counts.get(class).copied().unwrap_or(0);
        if let Some(f) = known.iter().find(|f| &f.class == class) {
            known_total += count;
            println!(
                "KNOWN-FINDING: property={} class={} cases={} {}",
                run.prop, class, count, f.what
            );
            viol_report.push(json!({"class": class, "known": true, "cases": count,
                "example": list.first().map(|v| v.summary.clone())}));
            continue;
        }
        unknown_total += count;
        exit = 1;
        let dir = PathBuf::from(format!("{}/replays/{}", out_dir(), run.prop));
        let _ = fs::create_dir_all(&dir);
        for v in list {
            let name = format!(
                "{}-{:016x}.json",
                sanitize(class),
                hash64(&v.case.to_string())
            );
            let path = dir.join(name);
            let body = json!({
                "property": run.prop,
                "class": v.class,
                "summary": v.summary,
                "case": v.case,
            });
            if let Err(e) = fs::write(&path, serde_json::to_string_pretty(&body).unwrap()) {
                machinery_error(&format!("cannot write replay {path:?}: {e}"));
            }
            println!(
                "VIOLATION property={} replay={}",
                run.prop,
                path.display()
            );
            eprintln!("  class={} cases={} :: {}", v.class, count, v.summary);
        }
        viol_report.push(json!({"class": class, "known": false, "cases": count,
            "example": list.first().map(|v| v.summary.clone())}));
    }

    // evidence
    let mut cov = Map::new();
    let states = acc.states.max(1);
    let transitions = acc.transitions.max(1);
    cov.insert("states".into(), json!(states));
    cov.insert("transitions".into(), json!(transitions));
    cov.insert("traces_validated_against_impl".into(), json!(acc.evals));
    cov.insert("evaluations".into(), json!(acc.evals.max(1)));
    let distinct = acc.distinct_measured.unwrap_or(0) + acc.nontrivial.len() as u64;
    cov.insert("distinct_nontrivial".into(), json!(distinct));
    cov.insert(
        "distinct_nontrivial_is_lower_bound".into(),
        json!(acc.nontrivial_saturated),
    );
    cov.insert("rule".into(), json!(summary.rule));
    let samples = if acc.samples.is_empty() {
        vec![json!("(no sample recorded)")]
    } else {
        acc.samples.clone()
    };
    cov.insert("samples".into(), Value::Array(samples));
    cov.insert("exhaustive".into(), json!(summary.exhaustive));
    cov.insert("bounds".into(), summary.bounds.clone());
    cov.insert("caps_hit".into(), json!(summary.caps_hit));
    let counters: Map<String, Value> = acc
        .counters
        .iter()
        .map(|(k, v)| (k.to_string(), json!(v)))
        .collect();
    cov.insert("counters".into(), Value::Object(counters));
    cov.insert("violation_classes".into(), Value::Array(viol_report));
    cov.insert("known_finding_cases".into(), json!(known_total));

    let ev = json!({
        "property_id": run.prop,
        "tier": run.tier.as_str(),
        "seed": run.seed,
        "level": run.level,
        "coverage": Value::Object(cov),
        "assumptions": summary.assumptions,
        "wall_s": run.start.elapsed().as_secs_f64(),
        "violations": unknown_total,
    });
    let dir = format!("{}/evidence", out_dir());
    let _ = fs::create_dir_all(&dir);
    let path = format!("{dir}/{}.json", run.prop);
    if let Err(e) = fs::write(&path, serde_json::to_string_pretty(&ev).unwrap() + "\n") {
        machinery_error(&format!("cannot write evidence {path}: {e}"));
    }
    eprintln!(
        "[{} {}] evals={} states={} transitions={} distinct_nontrivial={} violations={} known_cases={} exhaustive={} wall={:.1}s",
        run.prop,
        run.tier.as_str(),
        acc.evals,
        states,
        transitions,
        distinct,
        unknown_total,
        known_total,
        summary.exhaustive,
        run.start.elapsed().as_secs_f64()
    );
    for (k, v) in &acc.counters {
        eprintln!("    {k} = {v}");
    }
    exit
}

fn sanitize(s: &str) -> String {
    s.chars()
        .map(|c| if c.is_ascii_alphanumeric() || c == '-' { c } else { '_' })
        .collect()
}

/// Replay entry point shared by all properties: re-executes the case twice
/// (determinism check) and reports.
pub fn replay_file(prop: &str, path: &str, replay: &dyn Fn(&Value) -> Vec<Violation>) -> i32 {
    let text = fs::read_to_string(path)
        .unwrap_or_else(|e| machinery_error(&format!("cannot read {path}: {e}")));
    let v: Value = serde_json::from_str(&text)
        .unwrap_or_else(|e| machinery_error(&format!("cannot parse {path}: {e}")));
    let case = if v.get("case").is_some() { v["case"].clone() } else { v };
    watch::start_replay(prop, path, 120);
    let a = guarded(|| replay(&case));
    let b = guarded(|| replay(&case));
    let fmt = |r: &Result<Vec<Violation>, String>| match r {
        Ok(vs) => vs
            .iter()
            .map(|v| format!("{}: {}", v.class, v.summary))
            .collect::<Vec<_>>(),
        Err(p) => vec![format!("panic: {p}")],
    };
    let (fa, fb) = (fmt(&a), fmt(&b));
    if fa != fb {
        machinery_error("replay is not deterministic");
    }
    if fa.is_empty() {
        println!("replay: property {prop} holds on this case");
        0
    } else {
        for l in &fa {
            println!("replay: {l}");
        }
        println!("VIOLATION property={prop} replay={path}");
        1
    }
}

/// Parallel map-reduce over an index range with per-worker accumulators.
pub fn par_range(n: u64, f: impl Fn(u64, &mut Acc) + Sync) -> Acc {
    use rayon::prelude::*;
    let chunk = (n / 4096).max(1);
    let chunks = n.div_ceil(chunk);
    (0..chunks)
        .into_par_iter()
        .fold(Acc::new, |mut acc, c| {
            let lo = c * chunk;
            let hi = (lo + chunk).min(n);
            for i in lo..hi {
                f(i, &mut acc);
            }
            acc
        })
        .reduce(Acc::new, Acc::merge)
}

/// Parallel map-reduce over a slice of work items.
pub fn par_items<T: Sync>(items: &[T], f: impl Fn(&T, &mut Acc) + Sync) -> Acc {
    use rayon::prelude::*;
    items
        .par_iter()
        .fold(Acc::new, |mut acc, it| {
            f(it, &mut acc);
            acc
        })
        .reduce(Acc::new, Acc::merge)
}

/// Mixed-radix decode of `idx` into digits (least significant first).
pub fn digits(mut idx: u64, radices: &[u64], out: &mut Vec<usize>) {
    out.clear();
    for &r in radices {
        out.push((idx % r) as usize);
        idx /= r;
    }
}

pub fn product(radices: &[u64]) -> u64 {
    radices.iter().product()
}
