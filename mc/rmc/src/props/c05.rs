//! C05 — file framing: which lines reach which section parser.
//! E1: every file of <= k lines over an alphabet of line kinds x terminators x
//! final newline x encodings; oracles: (1) trace decoder == reference framing
//! procedure, (2) Beatmap == reference driver feeding the public parse_*
//! functions, (3) metamorphic corollaries of the statement.

use rosu_map::{Beatmap, DecodeBeatmap, DecodeState};
use serde_json::{json, Value};

use crate::{
    engine::{digits, finish, guarded, hex, par_range, product, run_witnesses, show_bytes, unhex, Acc, Run, Summary, Tier, Violation},
    env::{encode_text, ref_frame, ref_lines, Enc, Trace, ENCS, SECTIONS},
};

pub fn alphabet(full: bool) -> Vec<&'static str> {
    let mut a = vec![
        "",
        "  ",
        "// c",
        "  // c",
        "osu file format v9",
        "osu file format v14",
        "osu file format v128",
        "osu file format v",
        "osu file format vX",
        "osu file format v 9",
        "osu file format v9 // c",
        " osu file format v9",
        "[General]",
        "[Metadata]",
        "[TimingPoints]",
        "[HitObjects]",
        "[Variables]",
        "[Foo]",
        " [General]",
        "[General] // c",
        "[general]",
        "Title: a",
        "Mode: 1",
        "0,500,4,1,0,100,1,0",
        "1,2,3,1,0",
        "x",
        "Title: a // b",
        " Mode: 1",
        // in UTF-16 both code units contain the byte 0x0A without being a line feed
        "Title:\u{10A}\u{A00}",
    ];
    if full {
        a.extend([
            "[Editor]",
            "[Difficulty]",
            "[Events]",
            "[Colours]",
            "[CatchTheBeat]",
            "[Mania]",
            "BeatDivisor: 7",
            "CircleSize: 3.5",
            "2,100,900",
            "Combo1 : 1,2,3",
            "[HitObjects]x",
        ]);
    }
    a
}

pub fn deep_alphabet() -> Vec<&'static str> {
    vec![
        "",
        "// c",
        "  // c",
        "osu file format v9",
        "osu file format vX",
        "[General]",
        "[Metadata]",
        "[HitObjects]",
        "[Foo]",
        " [General]",
        "Title: a",
        "Mode: 1",
        "1,2,3,1,0",
        "x",
    ]
}

pub fn assemble(lines: &[&str], crlf: bool, final_nl: bool) -> String {
    let sep = if crlf { "\r\n" } else { "\n" };
    let mut s = lines.join(sep);
    if final_nl && !lines.is_empty() {
        s.push_str(sep);
    }
    s
}

fn trace_of(bytes: &[u8]) -> Result<Trace, String> {
    match guarded(|| rosu_map::from_bytes::<Trace>(bytes)) {
        Ok(Ok(t)) => Ok(t),
        Ok(Err(e)) => Err(format!("decode error: {e}")),
        Err(p) => Err(format!("panic: {p}")),
    }
}

/// Reference driver: feeds the framed lines to the public Beatmap parsers.
pub fn ref_beatmap(frame: &Trace) -> Beatmap {
    let mut st = <Beatmap as DecodeBeatmap>::State::create(frame.version);
    for (sec, line) in &frame.lines {
        let _ = match SECTIONS[*sec as usize].1 {
            "General" => Beatmap::parse_general(&mut st, line),
            "Editor" => Beatmap::parse_editor(&mut st, line),
            "Metadata" => Beatmap::parse_metadata(&mut st, line),
            "Difficulty" => Beatmap::parse_difficulty(&mut st, line),
            "Events" => Beatmap::parse_events(&mut st, line),
            "TimingPoints" => Beatmap::parse_timing_points(&mut st, line),
            "Colours" => Beatmap::parse_colors(&mut st, line),
            "HitObjects" => Beatmap::parse_hit_objects(&mut st, line),
            "Variables" => Beatmap::parse_variables(&mut st, line),
            "CatchTheBeat" => Beatmap::parse_catch_the_beat(&mut st, line),
            _ => Beatmap::parse_mania(&mut st, line),
        };
    }
    st.into()
}

fn case(bytes: &[u8]) -> Value {
    json!({"kind": "bytes", "hex": hex(bytes)})
}

/// Oracles (1) and (2) on one byte string.
pub fn check_bytes(bytes: &[u8], with_beatmap: bool, acc: &mut Acc) -> Option<Trace> {
    let _g = crate::engine::watch::bytes_guard(bytes);
    acc.evals += 1;
    acc.transitions += 1;
    let want = ref_frame(&ref_lines(bytes));
    let got = match trace_of(bytes) {
        Ok(t) => t,
        Err(e) => {
            acc.violation(Violation::new("decode-failed", format!("{}: {e}", show_bytes(bytes)), case(bytes)));
            return None;
        }
    };
    if got != want {
        let class = if got.version != want.version {
            "version"
        } else {
            "routing"
        };
        acc.violation(Violation::new(
            class,
            format!("{}: trace {got:?}, reference framing {want:?}", show_bytes(bytes)),
            case(bytes),
        ));
        return Some(got);
    }
    if with_beatmap {
        acc.evals += 1;
        acc.transitions += 1 + want.lines.len() as u64;
        match guarded(|| (rosu_map::from_bytes::<Beatmap>(bytes), ref_beatmap(&want))) {
            Ok((Ok(real), reference)) => {
                if format!("{real:?}") != format!("{reference:?}") {
                    acc.violation(Violation::new(
                        "beatmap-differs-from-reference-driver",
                        format!("{}: decoded Beatmap differs from the reference driver's", show_bytes(bytes)),
                        case(bytes),
                    ));
                }
            }
            Ok((Err(e), _)) => acc.violation(Violation::new("decode-failed", format!("{}: {e}", show_bytes(bytes)), case(bytes))),
            Err(p) => acc.violation(Violation::new("panic", format!("{}: {p}", show_bytes(bytes)), case(bytes))),
        }
    }
    if !got.lines.is_empty() {
        acc.nontrivial(&got);
    }
    Some(got)
}

/// Oracle (3): corollaries on the line list.
fn metamorphic(lines: &[&str], base: &Trace, acc: &mut Acc) {
    let first_nonblank = lines.iter().position(|l| !l.trim_end().is_empty());
    let mut v: Vec<&str> = Vec::with_capacity(lines.len() + 1);
    for pos in 0..=lines.len() {
        for ins in ["", "// inserted", "   // inserted", "[NoSuchSection]"] {
            // comment / unknown-bracket insertions only after the first non-blank line
            if !ins.is_empty() && first_nonblank.is_none_or(|f| pos <= f) {
                continue;
            }
            v.clear();
            v.extend_from_slice(&lines[..pos]);
            v.push(ins);
            v.extend_from_slice(&lines[pos..]);
            let text = assemble(&v, false, true);
            acc.evals += 1;
            acc.transitions += 1;
            let _g = crate::engine::watch::bytes_guard(text.as_bytes());
            match trace_of(text.as_bytes()) {
                Ok(t) => {
                    // an unknown bracketed line inside a section is handed to the
                    // parser like any record: remove it before comparing
                    let mut t2 = t.clone();
                    if ins == "[NoSuchSection]" {
                        t2.lines.retain(|(_, l)| l != ins);
                    }
                    if t2 != *base {
                        let class = match ins {
                            "" => "blank-line-changes-outcome",
                            "[NoSuchSection]" => "unknown-bracket-changes-section",
                            _ => "comment-changes-outcome",
                        };
                        acc.violation(Violation::new(
                            class,
                            format!("inserting {ins:?} at line {pos} of {lines:?} changes the trace: {t:?} vs {base:?}"),
                            case(text.as_bytes()),
                        ));
                    }
                }
                Err(e) => acc.violation(Violation::new("decode-failed", e, case(text.as_bytes()))),
            }
        }
    }
}

pub fn replay(case: &Value) -> Vec<Violation> {
    let bytes = unhex(case["hex"].as_str().unwrap_or(""));
    let mut acc = Acc::new();
    check_bytes(&bytes, true, &mut acc);
    // the metamorphic oracle works on text lines
    if let Ok(text) = std::str::from_utf8(&bytes) {
        let lines: Vec<&str> = text.split('\n').collect();
        if lines.len() <= 8 {
            if let Ok(base) = trace_of(&bytes) {
                let mut l = lines.clone();
                if l.last() == Some(&"") {
                    l.pop();
                }
                if assemble(&l, false, true).as_bytes() == bytes.as_slice() {
                    metamorphic(&l, &base, &mut acc);
                }
            }
        }
    }
    acc.viols.into_values().flatten().collect()
}

fn sweep(alpha: &[&str], k: usize, encs: &[Enc], variants: bool, meta: bool, beatmap: bool) -> (Acc, Value) {
    let mut total_acc = Acc::new();
    let mut per = Vec::new();
    for len in 0..=k {
        let radices = vec![alpha.len() as u64; len];
        let files = product(&radices);
        let a = par_range(files, |idx, acc| {
            let mut d = Vec::new();
            digits(idx, &radices, &mut d);
            let lines: Vec<&str> = d.iter().map(|&i| alpha[i]).collect();
            acc.states += 1;
            let mut base = None;
            for (crlf, fin) in [(false, true), (true, true), (false, false), (true, false)] {
                if !variants && (crlf || !fin) {
                    continue;
                }
                let text = assemble(&lines, crlf, fin);
                for &enc in encs {
                    let bytes = encode_text(&text, enc);
                    let t = check_bytes(&bytes, beatmap && enc == Enc::Utf8, acc);
                    if !crlf && fin && enc == encs[0] {
                        base = t;
                    }
                }
            }
            if meta {
                if let Some(base) = &base {
                    metamorphic(&lines, base, acc);
                }
            }
            if idx % 200_003 == 7 {
                acc.sample(|| json!({"lines": lines}));
            }
        });
        per.push(json!({"lines": len, "files": files}));
        total_acc = total_acc.merge(a);
    }
    (total_acc, json!({"alphabet": alpha.len(), "max_lines": k, "encodings": encs.len(), "per_len": per,
        "terminator_and_final_newline_variants": variants, "metamorphic": meta, "beatmap_vs_reference_driver": beatmap}))
}

pub fn run(tier: Tier) -> i32 {
    let run = Run::new("C05", tier, "model_checking");
    let mut acc = Acc::new();
    run_witnesses("C05", &mut acc, &replay);
    let mut bounds = Vec::new();
    // main sweep, UTF-8, all terminator variants, metamorphic + reference driver
    let main_alpha = alphabet(true);
    let k = tier.pick(4, 5);
    let (a, b) = sweep(&main_alpha, k, &[Enc::Utf8], true, true, true);
    acc = acc.merge(a);
    bounds.push(b);
    // other encodings at k-1 (quick: k-1 with the small alphabet)
    let (a, b) = sweep(&alphabet(tier.thorough()), tier.pick(3, 4), &ENCS[1..], true, false, false);
    acc = acc.merge(a);
    bounds.push(b);
    // deeper level over the reduced alphabet
    let (a, b) = sweep(&deep_alphabet(), tier.pick(5, 6), &[Enc::Utf8], false, false, tier.thorough());
    acc = acc.merge(a);
    bounds.push(b);
    let summary = Summary {
        rule: "every file of <= k lines over the line-kind alphabet (blank, whitespace, comments, version lines good/bad/suffixed/\
               indented, recognised/unknown/indented/suffixed/lower-case headers, valid and invalid records) x {LF,CRLF} x \
               {final newline or not} x encodings: (1) trace decoder (which line reached which parser, version) == reference \
               framing procedure; (2) decoded Beatmap == reference driver over the public parse_* functions; (3) inserting a \
               blank line anywhere / a comment or unknown bracketed line after the first non-blank line changes nothing. \
               states = files, evaluations = decodes; distinct_nontrivial = distinct traces with at least one routed line"
            .into(),
        bounds: json!({"sweeps": bounds}),
        exhaustive: true,
        caps_hit: vec![],
        assumptions: vec![
            "line contents restricted to the alphabet (one non-ASCII record whose UTF-16 units contain the byte 0x0A); text encodings in general are C10's subject".into(),
            "comment inserted before the first non-blank line is outside the corollary (DESIGN section 7)".into(),
        ],
    };
    finish(&run, acc, summary)
}
