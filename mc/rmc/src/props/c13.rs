//! C13 — control-point collections stay ordered and lookups return the
//! active point.  E2 product search: (real `ControlPoints`, linear-scan
//! reference) x add-operation alphabet.

use rosu_map::section::{
    hit_objects::hit_samples::SampleBank,
    timing_points::{
        ControlPoints, DifficultyPoint, EffectPoint, SamplePoint, TimeSignature, TimingPoint,
    },
};
use serde_json::{json, Value};

use crate::engine::{
    e2::{self, Product, StepOut},
    finish, guarded, run_witnesses, Acc, Run, Summary, Tier, Violation,
};

#[derive(Clone, Debug, PartialEq)]
pub enum Op {
    T(TimingPoint),
    D(DifficultyPoint),
    E(EffectPoint),
    S(SamplePoint),
}

/// Boring reference: four vectors, linear scans, `<=` on times.
#[derive(Clone, Debug, Default, PartialEq)]
pub struct RefCp {
    pub t: Vec<TimingPoint>,
    pub d: Vec<DifficultyPoint>,
    pub e: Vec<EffectPoint>,
    pub s: Vec<SamplePoint>,
}

fn active<'a, P>(list: &'a [P], time_of: impl Fn(&P) -> f64, t: f64) -> Option<&'a P> {
    let mut best: Option<&P> = None;
    for p in list {
        if time_of(p) <= t {
            match best {
                Some(b) if time_of(b) > time_of(p) => {}
                _ => best = Some(p),
            }
        }
    }
    best
}

fn insert_or_replace<P>(list: &mut Vec<P>, time_of: impl Fn(&P) -> f64, p: P) {
    let t = time_of(&p);
    for slot in list.iter_mut() {
        if time_of(slot) == t {
            *slot = p;
            return;
        }
    }
    let mut idx = list.len();
    for (i, q) in list.iter().enumerate() {
        if time_of(q) > t {
            idx = i;
            break;
        }
    }
    list.insert(idx, p);
}

impl RefCp {
    pub fn add(&mut self, op: &Op) {
        match op {
            Op::T(p) => insert_or_replace(&mut self.t, |p| p.time, p.clone()),
            Op::D(p) => {
                let (sv, gt) = active(&self.d, |p| p.time, p.time)
                    .map_or((1.0, true), |a| (a.slider_velocity, a.generate_ticks));
                let redundant = gt == p.generate_ticks && (p.slider_velocity - sv).abs() < f64::EPSILON;
                if !redundant {
                    insert_or_replace(&mut self.d, |p| p.time, p.clone());
                }
            }
            Op::E(p) => {
                let (kiai, ss) = active(&self.e, |p| p.time, p.time)
                    .map_or((false, 1.0), |a| (a.kiai, a.scroll_speed));
                let redundant = kiai == p.kiai && (p.scroll_speed - ss).abs() < f64::EPSILON;
                if !redundant {
                    insert_or_replace(&mut self.e, |p| p.time, p.clone());
                }
            }
            Op::S(p) => {
                let redundant = active(&self.s, |p| p.time, p.time).is_some_and(|a| {
                    a.sample_bank == p.sample_bank
                        && a.sample_volume == p.sample_volume
                        && a.custom_sample_bank == p.custom_sample_bank
                });
                if !redundant {
                    insert_or_replace(&mut self.s, |p| p.time, p.clone());
                }
            }
        }
    }

    pub fn timing_at(&self, t: f64) -> Option<&TimingPoint> {
        active(&self.t, |p| p.time, t).or(self.t.first())
    }
    pub fn sample_at(&self, t: f64) -> Option<&SamplePoint> {
        active(&self.s, |p| p.time, t).or(self.s.first())
    }
    pub fn difficulty_at(&self, t: f64) -> Option<&DifficultyPoint> {
        active(&self.d, |p| p.time, t)
    }
    pub fn effect_at(&self, t: f64) -> Option<&EffectPoint> {
        active(&self.e, |p| p.time, t)
    }
}

pub fn apply_real(cp: &mut ControlPoints, op: &Op) {
    match op {
        Op::T(p) => cp.add(p.clone()),
        Op::D(p) => cp.add(p.clone()),
        Op::E(p) => cp.add(p.clone()),
        Op::S(p) => cp.add(p.clone()),
    }
}

const PROBES: [f64; 16] = [-2.0, -1.0, -0.5, -0.0, 0.0, 5e-18, 1e-17, 0.25, 0.5, 1.0, 1.0000000000000002, 1.0000000000000004, 1.5, 2.0, 3.0, 1e9];

fn strictly_increasing(ts: impl Iterator<Item = f64>) -> bool {
    let v: Vec<f64> = ts.collect();
    v.windows(2).all(|w| w[0] < w[1])
}

/// Oracle evaluated after every transition.
pub fn check(real: &ControlPoints, r: &RefCp) -> Option<(String, String)> {
    if super::gen::lists_differ(&real.timing_points, &r.t)
        || super::gen::lists_differ(&real.difficulty_points, &r.d)
        || super::gen::lists_differ(&real.effect_points, &r.e)
        || super::gen::lists_differ(&real.sample_points, &r.s)
    {
        return Some((
            "lists-differ".into(),
            format!("lists differ from linear-scan reference: real={real:?} ref={r:?}"),
        ));
    }
    if !strictly_increasing(real.timing_points.iter().map(|p| p.time))
        || !strictly_increasing(real.difficulty_points.iter().map(|p| p.time))
        || !strictly_increasing(real.effect_points.iter().map(|p| p.time))
        || !strictly_increasing(real.sample_points.iter().map(|p| p.time))
    {
        return Some(("not-strictly-ordered".into(), format!("{real:?}")));
    }
    for &t in &PROBES {
        if super::gen::opts_differ(real.timing_point_at(t), r.timing_at(t)) {
            return Some((
                "lookup-timing".into(),
                format!(
                    "timing_point_at({t}) = {:?}, reference {:?}; lists {real:?}",
                    real.timing_point_at(t),
                    r.timing_at(t)
                ),
            ));
        }
        if super::gen::opts_differ(real.sample_point_at(t), r.sample_at(t)) {
            return Some((
                "lookup-sample".into(),
                format!(
                    "sample_point_at({t}) = {:?}, reference {:?}",
                    real.sample_point_at(t),
                    r.sample_at(t)
                ),
            ));
        }
        if super::gen::opts_differ(real.difficulty_point_at(t), r.difficulty_at(t)) {
            return Some((
                "lookup-difficulty".into(),
                format!(
                    "difficulty_point_at({t}) = {:?}, reference {:?}",
                    real.difficulty_point_at(t),
                    r.difficulty_at(t)
                ),
            ));
        }
        if super::gen::opts_differ(real.effect_point_at(t), r.effect_at(t)) {
            return Some((
                "lookup-effect".into(),
                format!(
                    "effect_point_at({t}) = {:?}, reference {:?}",
                    real.effect_point_at(t),
                    r.effect_at(t)
                ),
            ));
        }
    }
    None
}

/// times that differ by less than any tolerance a sloppy comparison might use: they are different times
const NEAR_TIMES: [f64; 4] = [0.0, 1e-17, 1.0, 1.0000000000000002];

pub fn alphabet(tier: Tier) -> Vec<Op> {
    let times: &[f64] = tier.pick(&[-1.0, 0.0, -0.0, 1.0, 2.0], &[-1.0, 0.0, -0.0, 0.5, 1.0, 2.0]);
    alphabet_over(times, tier.thorough())
}

pub fn alphabet_over(times: &[f64], more_values: bool) -> Vec<Op> {
    let sig = TimeSignature::new_simple_quadruple();
    let mut ops = Vec::new();
    for &time in times {
        for bl in [500.0, 300.0] {
            ops.push(Op::T(TimingPoint {
                time,
                beat_len: bl,
                omit_first_bar_line: false,
                time_signature: sig,
            }));
        }
        let mut dv = vec![(1.0, true), (2.0, true)];
        let mut ev = vec![(false, 1.0), (true, 1.0)];
        // bank None is a value of its own in the collection API (only the line parser maps it to Normal)
        let mut sv = vec![(SampleBank::Normal, 100, 0), (SampleBank::Soft, 50, 0), (SampleBank::None, 100, 0)];
        if more_values {
            dv.push((1.0, false));
            ev.push((false, 2.0));
            sv.push((SampleBank::Normal, 100, 2));
        }
        for (v, gt) in dv {
            ops.push(Op::D(DifficultyPoint {
                time,
                slider_velocity: v,
                generate_ticks: gt,
            }));
        }
        for (kiai, ss) in ev {
            ops.push(Op::E(EffectPoint {
                time,
                kiai,
                scroll_speed: ss,
            }));
        }
        for (bank, vol, custom) in sv {
            ops.push(Op::S(SamplePoint {
                time,
                sample_bank: bank,
                sample_volume: vol,
                custom_sample_bank: custom,
            }));
        }
    }
    ops
}

#[derive(Clone)]
struct Model {
    ops: std::sync::Arc<Vec<Op>>,
}

#[derive(Clone)]
pub struct S {
    real: ControlPoints,
    model: RefCp,
}

impl Product for Model {
    type S = S;
    type A = u16;

    fn name(&self) -> &'static str {
        "c13-control-points"
    }
    fn init(&self) -> Vec<S> {
        vec![S {
            real: ControlPoints::default(),
            model: RefCp::default(),
        }]
    }
    fn actions(&self, _: &S, out: &mut Vec<u16>) {
        out.extend(0..self.ops.len() as u16);
    }
    fn step(&self, s: &S, a: &u16) -> StepOut<S> {
        let op = &self.ops[*a as usize];
        let mut next = s.clone();
        next.model.add(op);
        let res = guarded(|| {
            let mut real = s.real.clone();
            apply_real(&mut real, op);
            real
        });
        match res {
            Ok(real) => {
                next.real = real;
                let mut bad = check(&next.real, &next.model);
                // copies: a collection overwritten through Clone::clone_from is the source collection (both directions
                // between the state before and after the operation)
                if bad.is_none() {
                    let mut a = next.real.clone();
                    a.clone_from(&s.real);
                    let mut b = s.real.clone();
                    b.clone_from(&next.real);
                    if format!("{a:?}") != format!("{:?}", s.real) || format!("{b:?}") != format!("{:?}", next.real) {
                        bad = Some(("copy-differs".into(), format!("clone_from between {:?} and {:?} does not reproduce its source: {a:?} / {b:?}", s.real, next.real)));
                    }
                }
                StepOut { next, bad }
            }
            Err(p) => StepOut {
                next,
                bad: Some(("panic".into(), p)),
            },
        }
    }
    fn key(&self, s: &S) -> String {
        format!("{:?}|{:?}", s.real, s.model)
    }
    fn action_json(&self, a: &u16) -> Value {
        op_json(&self.ops[*a as usize])
    }
}

fn op_json(op: &Op) -> Value {
    match op {
        Op::T(p) => json!({"k": "T", "time": p.time, "beat_len": p.beat_len}),
        Op::D(p) => {
            json!({"k": "D", "time": p.time, "sv": p.slider_velocity, "ticks": p.generate_ticks})
        }
        Op::E(p) => json!({"k": "E", "time": p.time, "kiai": p.kiai, "scroll": p.scroll_speed}),
        Op::S(p) => json!({"k": "S", "time": p.time, "bank": p.sample_bank as i32,
            "vol": p.sample_volume, "custom": p.custom_sample_bank}),
    }
}

fn op_from_json(v: &Value) -> Op {
    let time = v["time"].as_f64().unwrap();
    match v["k"].as_str().unwrap() {
        "T" => Op::T(TimingPoint {
            time,
            beat_len: v["beat_len"].as_f64().unwrap(),
            omit_first_bar_line: false,
            time_signature: TimeSignature::new_simple_quadruple(),
        }),
        "D" => Op::D(DifficultyPoint {
            time,
            slider_velocity: v["sv"].as_f64().unwrap(),
            generate_ticks: v["ticks"].as_bool().unwrap(),
        }),
        "E" => Op::E(EffectPoint {
            time,
            kiai: v["kiai"].as_bool().unwrap(),
            scroll_speed: v["scroll"].as_f64().unwrap(),
        }),
        _ => Op::S(SamplePoint {
            time,
            sample_bank: SampleBank::try_from(v["bank"].as_i64().unwrap() as i32).unwrap(),
            sample_volume: v["vol"].as_i64().unwrap() as i32,
            custom_sample_bank: v["custom"].as_i64().unwrap() as i32,
        }),
    }
}

pub fn replay(case: &Value) -> Vec<Violation> {
    let mut real = ControlPoints::default();
    let mut model = RefCp::default();
    for (i, a) in case["actions"].as_array().unwrap().iter().enumerate() {
        let op = op_from_json(a);
        model.add(&op);
        apply_real(&mut real, &op);
        if let Some((class, summary)) = check(&real, &model) {
            return vec![Violation::new(
                class,
                format!("after op {i}: {summary}"),
                case.clone(),
            )];
        }
    }
    Vec::new()
}

pub fn run(tier: Tier) -> i32 {
    let run = Run::new("C13", tier, "model_checking");
    let mut acc = Acc::new();
    run_witnesses("C13", &mut acc, &replay);
    let ops = alphabet(tier);
    let n_ops = ops.len();
    let model = Model {
        ops: std::sync::Arc::new(ops.clone()),
    };
    let depths: &[u16] = tier.pick(&[5], &[6]);
    let cap = tier.pick(40_000_000, 600_000_000);
    let mut res = e2::run_opts("C13", model, depths, cap, tier.thorough(), &mut acc);
    if tier.thorough() && acc.viols.is_empty() {
        // one level deeper over the quick-tier alphabet
        let small = alphabet(Tier::Quick);
        let model = Model { ops: std::sync::Arc::new(small) };
        let r = e2::run_opts("C13", model, &[7, 8], 900_000_000, true, &mut acc);
        res.per_depth.extend(r.per_depth);
        res.capped_at_depth = res.capped_at_depth.or(r.capped_at_depth);
    }
    if acc.viols.is_empty() {
        // times that are distinct but closer than any epsilon
        let near = alphabet_over(&NEAR_TIMES, false);
        let model = Model { ops: std::sync::Arc::new(near) };
        let r = e2::run_opts("C13", model, tier.pick(&[4], &[5]), 900_000_000, true, &mut acc);
        res.per_depth.extend(r.per_depth);
        res.capped_at_depth = res.capped_at_depth.or(r.capped_at_depth);
    }
    // every generated transition is a real call compared with the reference
    acc.evals += acc.transitions;
    // distinct non-trivial: counted as distinct canonical states (each holds a
    // different pair of lists)
    acc.distinct_measured = Some(acc.states);
    acc.sample(|| json!({"history": [op_json(&ops[0]), op_json(&ops[3]), op_json(&ops[5])]}));
    let exhaustive = res.capped_at_depth.is_none();
    let summary = Summary {
        rule: format!(
            "stateright BFS over (real ControlPoints, linear-scan reference); {n_ops} add operations, then a second search over the \
             32 operations at the nearly-equal times 0, 1e-17, 1, 1+2^-52; \
             after every transition: lists == reference, strictly increasing times, four lookups at {} probe \
             times == reference; clone_from between the states before and after reproduces its source. A case is one transition; distinct_nontrivial = distinct canonical product states \
             (each holds a different pair of list contents) as counted by the checker",
            PROBES.len()
        ),
        bounds: json!({"operations": n_ops, "completed_depth": res.completed_depth,
            "capped_at_depth": res.capped_at_depth, "per_depth": res.per_depth}),
        exhaustive,
        caps_hit: res
            .capped_at_depth
            .map(|d| vec![format!("state cap {cap} hit at depth {d}")])
            .unwrap_or_default(),
        assumptions: vec![
            "64-bit state fingerprints do not collide".into(),
            "times limited to the alphabets (no NaN or infinities)".into(),
        ],
    };
    finish(&run, acc, summary)
}
