//! E1: stateless choice-tree explorer with deviation bounds.
//!
//! The harness body asks a [`Chooser`] for every decision.  Answer 0 is the
//! default; any other answer is a *deviation*.  [`explore`] enumerates every
//! choice vector with at most `bound` deviations depth-first (all vectors when
//! `bound` is `None`).  A choice vector is the replay artefact.

pub struct Chooser<'a> {
    prefix: &'a [u32],
    /// (answer, arity) of every choice point met in this execution
    pub trace: Vec<(u32, u32)>,
}

impl<'a> Chooser<'a> {
    pub fn new(prefix: &'a [u32]) -> Self {
        Self {
            prefix,
            trace: Vec::new(),
        }
    }

    /// Next decision among `n` alternatives.
    pub fn choose(&mut self, n: u32) -> u32 {
        assert!(n >= 1);
        let pos = self.trace.len();
        let c = if pos < self.prefix.len() {
            self.prefix[pos]
        } else {
            0
        };
        if c >= n {
            // divergence while replaying a prefix is a machinery error
            super::machinery_error(&format!(
                "choice-tree replay diverged at point {pos}: answer {c} of {n}"
            ));
        }
        self.trace.push((c, n));
        c
    }

    pub fn choices(&self) -> Vec<u32> {
        self.trace.iter().map(|c| c.0).collect()
    }
}

#[derive(Default, Clone, Copy, Debug)]
pub struct TreeStats {
    /// complete executions
    pub runs: u64,
    /// distinct choice points (inner tree nodes)
    pub nodes: u64,
    /// edges taken (answers given at distinct positions)
    pub edges: u64,
    pub max_depth: usize,
}

/// Explores the whole choice tree of `body` (deviation bounded).  `visit`
/// receives each complete execution's choice vector and result.
pub fn explore<R>(
    bound: Option<u32>,
    mut body: impl FnMut(&mut Chooser<'_>) -> R,
    mut visit: impl FnMut(&[u32], R),
) -> TreeStats {
    let mut stats = TreeStats::default();
    let mut stack: Vec<Vec<u32>> = vec![Vec::new()];
    while let Some(prefix) = stack.pop() {
        let mut ch = Chooser::new(&prefix);
        let r = body(&mut ch);
        let trace = std::mem::take(&mut ch.trace);
        if trace.len() < prefix.len() {
            super::machinery_error("choice-tree replay diverged: execution shorter than prefix");
        }
        stats.runs += 1;
        stats.nodes += (trace.len() - prefix.len()) as u64;
        stats.edges += (trace.len() - prefix.len()) as u64 + u64::from(!prefix.is_empty());
        stats.max_depth = stats.max_depth.max(trace.len());
        let choices: Vec<u32> = trace.iter().map(|c| c.0).collect();
        visit(&choices, r);

        // deviations used by the prefix
        let mut dev: u32 = prefix.iter().filter(|&&c| c != 0).count() as u32;
        // positions >= prefix.len() all carry answer 0
        let _ = &mut dev;
        for i in (prefix.len()..trace.len()).rev() {
            if let Some(b) = bound {
                if dev + 1 > b {
                    break;
                }
            }
            for alt in (1..trace[i].1).rev() {
                let mut p = choices[..i].to_vec();
                p.push(alt);
                stack.push(p);
            }
        }
    }
    stats
}
