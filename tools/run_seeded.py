#!/usr/bin/env python3
"""Runs the quick checks against every seeded change and reverted fix.

For each /verif/seeded/<id>/patch.diff (and each seeded/reverts/*.diff): apply to /repo, run the quick tier of the
property it targets plus related properties, undo.  Records which checks report a VIOLATION in
seeded/<id>/meta.json ("detected_by" / "not_detected_by") and writes seeded/RESULTS.md.

usage: tools/run_seeded.py [only-this-seed ...]
"""
import glob, json, os, subprocess, sys, time

ROOT = "/verif"
RELATED = {
    "C01": ["C07", "C10", "C08"], "C02": ["C04", "C03", "C07"], "C03": ["C15", "C11", "C08"], "C04": ["C02", "C05", "C11"], "C05": ["C10", "C01", "C08", "C07"],
    "C06": ["C12", "C14", "C05"], "C07": ["C01", "C08"], "C08": ["C09"], "C09": ["C08", "C03"], "C10": ["C05", "C08"], "C11": ["C03", "C06"],
    "C12": ["C13", "C06"], "C13": ["C12"], "C14": ["C06", "C15"], "C15": ["C14", "C12", "C13"], "C16": ["C18", "C19", "C15", "C17"],
    "C17": ["C18", "C16"], "C18": ["C16", "C02"], "C19": ["C16", "C18"], "C20": [],
}
REVERT_PROPS = {
    "142f32a": ["C11", "C03"], "c8b048f": ["C04", "C02"], "3546723": ["C06"], "b35ece3": ["C18"], "e7c281a": ["C02", "C03"],
    "81b36fb": ["C10", "C01"], "c0d8faf": ["C08"], "f98a8d9": ["C10"], "ff50889": ["C16"], "2225d42": ["C14"],
    "8f88da9": ["C02"], "ce3d284": ["C15"], "e8b9088": ["C02"], "7d244a0": ["C13", "C12"], "0d732b5": ["C02"], "4855aec": ["C16", "C17"], "b2fde6a": ["C14", "C12"], "5f1db28": ["C09"], "ed12394": ["C02"],
}


def sh(cmd, **kw):
    return subprocess.run(cmd, shell=True, text=True, capture_output=True, **kw)


def run_patch(patch, props):
    assert sh("git -C /repo diff --quiet").returncode == 0, "/repo has uncommitted changes"
    r = sh(f"git -C /repo apply --3way {patch} && git -C /repo reset -q")
    if r.returncode != 0:
        sh("git -C /repo reset -q --hard HEAD")
        return None
    res = {}
    try:
        for p in props:
            t0 = time.time()
            out = sh(f"{ROOT}/check {p} quick")
            viol = [l for l in out.stdout.splitlines() if l.startswith("VIOLATION")]
            classes = sorted({l.split("class=")[1].split(" ")[0] for l in out.stderr.splitlines() if "class=" in l})
            res[p] = {"exit": out.returncode, "violations": len(viol), "classes": classes[:4], "wall_s": round(time.time() - t0, 1)}
    finally:
        sh("git -C /repo checkout -- . && git -C /repo clean -fdq src tests")
    return res


def main():
    only = set(sys.argv[1:])
    rows = []
    seeds = sorted(d for d in glob.glob(f"{ROOT}/seeded/C*-*") if os.path.isdir(d))
    for d in seeds:
        name = os.path.basename(d)
        if only and name not in only:
            continue
        prop = name.split("-")[0]
        props = [prop] + RELATED.get(prop, [])
        res = run_patch(f"{d}/patch.diff", props)
        meta_path = f"{d}/meta.json"
        meta = json.load(open(meta_path)) if os.path.exists(meta_path) else {}
        if res is None:
            meta["patch_applies_to_current_head"] = False
            rows.append((name, prop, "PATCH DOES NOT APPLY", ""))
        else:
            meta["patch_applies_to_current_head"] = True
            meta["detected_by"] = [f"{p} quick ({','.join(v['classes'])})" for p, v in res.items() if v["exit"] == 1]
            meta["not_detected_by"] = [f"{p} quick" for p, v in res.items() if v["exit"] == 0]
            meta["machinery_errors"] = [p for p, v in res.items() if v["exit"] not in (0, 1)]
            rows.append((name, prop, ", ".join(meta["detected_by"]) or "-", ", ".join(meta["not_detected_by"]) or "-"))
        json.dump(meta, open(meta_path, "w"), indent=1)
        print(rows[-1], flush=True)
    for patch in sorted(glob.glob(f"{ROOT}/seeded/reverts/*.diff")):
        name = os.path.basename(patch)[:-5]
        if only and name not in only:
            continue
        commit = name.split("-")[-1]
        props = REVERT_PROPS.get(commit, [])
        res = run_patch(patch, props)
        if res is None:
            rows.append((name, "/".join(props), "PATCH DOES NOT APPLY", ""))
        else:
            det = [f"{p} quick ({','.join(v['classes'])})" for p, v in res.items() if v["exit"] == 1]
            nd = [f"{p} quick" for p, v in res.items() if v["exit"] == 0]
            rows.append((name, "/".join(props), ", ".join(det) or "-", ", ".join(nd) or "-"))
        print(rows[-1], flush=True)
    # reverted fixes: remember the latest result of each
    rpath = f"{ROOT}/seeded/reverts/results.json"
    rres = json.load(open(rpath)) if os.path.exists(rpath) else {}
    for r in rows:
        if r[0].startswith(("revert-", "reintroduce-")):
            rres[r[0]] = list(r)
    json.dump(rres, open(rpath, "w"), indent=1, sort_keys=True)
    write_results(rres)


def write_results(rres):
    """RESULTS.md = latest recorded result of every kept change (meta.json) and every reverted fix."""
    with open(f"{ROOT}/seeded/RESULTS.md", "w") as f:
        f.write("# Seeded changes vs. quick checks\n\nGenerated by tools/run_seeded.py (each patch applied to /repo, quick tiers of the targeted and related\n"
                "properties run, patch undone). Each row is the latest run of that change; checks were only ever strengthened between runs.\n\n")
        f.write("The third column is the full run of the targeted and related properties (rounds ran at different times); the last column\n"
                "is tools/reconfirm.py: the change applied to the final /repo HEAD and the final checks, first check that reports it again.\n\n")
        f.write("| change | targets | detected by (violation classes) | not detected by | reconfirmed on the final checks by |\n|---|---|---|---|---|\n")
        for d in sorted(x for x in glob.glob(f"{ROOT}/seeded/C*-*") if os.path.isdir(x)):
            name = os.path.basename(d)
            mp = f"{d}/meta.json"
            meta = json.load(open(mp)) if os.path.exists(mp) else {}
            if meta.get("patch_applies_to_current_head") is False:
                f.write(f"| {name} | {name.split('-')[0]} | PATCH DOES NOT APPLY | |\n")
                continue
            det = ", ".join(meta.get("detected_by", [])) or "-"
            nd = ", ".join(meta.get("not_detected_by", [])) or "-"
            rc = meta.get("reconfirmed", {})
            rcs = f"{rc.get('by')} @ {rc.get('repo_head')}" if rc.get("by") else "-"
            f.write(f"| {name} | {name.split('-')[0]} | {det} | {nd} | {rcs} |\n")
        for name in sorted(rres):
            f.write("| " + " | ".join(rres[name]) + " | (same run) |\n")


if __name__ == "__main__":
    main()
