//! C09 — I/O faults are surfaced, never swallowed or turned into partial
//! results.  Fault enumeration: every byte offset of every file in the pool x
//! error kind x chunking on the read side; every output offset x fault type on
//! the write side; every placement of transient Interrupted conditions.

use std::io::ErrorKind;

use rosu_map::{Beatmap, DecodeBeatmap};
use serde_json::{json, Value};

use super::c08::file_pool;
use crate::{
    engine::{finish, guarded, hex, par_items, run_witnesses, unhex, Acc, Run, Summary, Tier, Violation},
    env::{CutReader, FaultReader, FaultWriter, Trace, WriteFault},
};

const KINDS: [ErrorKind; 5] = [
    ErrorKind::Other,
    ErrorKind::UnexpectedEof,
    ErrorKind::PermissionDenied,
    ErrorKind::TimedOut,
    ErrorKind::WouldBlock,
];

fn kind_name(k: ErrorKind) -> String {
    format!("{k:?}")
}

fn kind_from(s: &str) -> ErrorKind {
    KINDS.iter().copied().find(|k| kind_name(*k) == s).unwrap_or(ErrorKind::Other)
}

fn offsets(bytes: &[u8], dense_limit: usize, budget: usize) -> Vec<usize> {
    let len = bytes.len();
    if len <= dense_limit {
        return (0..=len).collect();
    }
    let mut v: Vec<usize> = (0..48.min(len)).collect();
    v.extend(len.saturating_sub(48)..=len);
    let lfs: Vec<usize> = bytes.iter().enumerate().filter(|(_, b)| **b == b'\n').map(|(i, _)| i).collect();
    let stride = (lfs.len() / budget.max(1)).max(1);
    for lf in lfs.iter().step_by(stride) {
        for o in lf.saturating_sub(1)..=(lf + 2).min(len) {
            v.push(o);
        }
    }
    v.sort_unstable();
    v.dedup();
    v
}

fn read_case(name: &str, bytes: &[u8], at: usize, kind: ErrorKind, chunk: usize, decoder: &str) -> Value {
    json!({"kind": "read-fault", "file": name, "hex": if bytes.len() <= 4096 { hex(bytes) } else { String::new() },
        "offset": at, "error": kind_name(kind), "chunk": chunk, "decoder": decoder})
}

fn check_read_fault(name: &str, bytes: &[u8], at: usize, kind: ErrorKind, chunk: usize, full: bool, acc: &mut Acc) {
    let _g = crate::engine::watch::guard("read-fault", |s| s.push_str(&format!("{name} offset {at} kind {kind:?} chunk {chunk}")));
    acc.evals += 1;
    acc.transitions += (at / chunk.max(1)) as u64 + 1;
    let run = |full: bool| -> Result<Result<String, ErrorKind>, String> {
        guarded(|| {
            let r = FaultReader::new(bytes, chunk, at, kind);
            if full {
                Beatmap::decode(r).map(|_| "Ok(Beatmap)".to_string()).map_err(|e| e.kind())
            } else {
                Trace::decode(r).map(|t| format!("Ok(trace with {} lines)", t.lines.len())).map_err(|e| e.kind())
            }
        })
    };
    let decoder = if full { "Beatmap" } else { "Trace" };
    match run(full) {
        Ok(Err(k)) if k == kind => {}
        Ok(Err(k)) => acc.violation(Violation::new(
            "wrong-error-kind",
            format!("{name}: {kind:?} at offset {at} (chunk {chunk}, {decoder}) surfaced as {k:?}"),
            read_case(name, bytes, at, kind, chunk, decoder),
        )),
        Ok(Ok(what)) => acc.violation(Violation::new(
            "read-fault-swallowed",
            format!("{name}: {kind:?} at offset {at}/{} (chunk {chunk}, {decoder}) was swallowed: decode returned {what}", bytes.len()),
            read_case(name, bytes, at, kind, chunk, decoder),
        )),
        Err(p) => acc.violation(Violation::new(
            "panic",
            format!("{name}: {kind:?} at offset {at} (chunk {chunk}, {decoder}): {p}"),
            read_case(name, bytes, at, kind, chunk, decoder),
        )),
    }
}

fn trace_res(r: std::io::Result<Trace>) -> Result<Trace, String> {
    r.map_err(|e| format!("Err({:?})", e.kind()))
}

fn read_side(tier: Tier, acc_out: &mut Acc) -> Value {
    let pool = file_pool();
    let dense = tier.pick(4096, 80 * 1024);
    let a = par_items(&pool, |(name, bytes), acc| {
        acc.states += 1;
        let offs = offsets(bytes, dense, tier.pick(48, 1500));
        let small = bytes.len() <= 4096;
        for &at in &offs {
            for (ki, &kind) in KINDS.iter().enumerate() {
                for chunk in [usize::MAX / 2, 1, 7] {
                    // big files: full kind x chunk product only at the head, else (Other, whole) and (UnexpectedEof, 7)
                    if !small && at > 64 && !((ki == 0 && chunk > 7) || (ki == 1 && chunk == 7)) {
                        continue;
                    }
                    if !small && chunk == 1 && at > 4096 {
                        continue;
                    }
                    check_read_fault(name, bytes, at, kind, chunk, false, acc);
                }
            }
            if small {
                check_read_fault(name, bytes, at, ErrorKind::Other, 5, true, acc);
            }
            acc.nontrivial(&(name, at));
        }
        // transient conditions: identical result
        let base = trace_res(rosu_map::from_bytes::<Trace>(bytes));
        if bytes.len() <= 1200 {
            for chunk in [1usize, 7, usize::MAX / 2] {
                let cuts: Vec<usize> = if chunk > bytes.len() { vec![] } else { (1..).map(|k| k * chunk).take_while(|c| *c < bytes.len()).collect() };
                let decisions = cuts.len() + 1;
                for i in 0..decisions {
                    acc.evals += 1;
                    acc.transitions += decisions as u64;
                    let _g = crate::engine::watch::bytes_guard(bytes);
                    let got = guarded(|| trace_res(Trace::decode(CutReader::new(bytes, &cuts, &[i]))));
                    if got.as_ref().ok() != Some(&base) {
                        acc.violation(Violation::new(
                            "interrupted-not-transparent",
                            format!("{name}: Interrupted before chunk {i} (chunk size {chunk}) changed the result: {:?}", got.map(|r| r.map(|t| t.lines.len()))),
                            json!({"kind": "interrupt", "file": name, "hex": hex(bytes), "chunk": chunk, "interrupts": [i]}),
                        ));
                    }
                }
                // pairs on very small inputs (each interrupt shifts later decision indices by one)
                if bytes.len() <= tier.pick(120, 300) {
                    for i in 0..decisions {
                        for j in i + 1..decisions + 1 {
                            acc.evals += 1;
                            let _g = crate::engine::watch::bytes_guard(bytes);
                            let got = guarded(|| trace_res(Trace::decode(CutReader::new(bytes, &cuts, &[i, j]))));
                            if got.as_ref().ok() != Some(&base) {
                                acc.violation(Violation::new(
                                    "interrupted-not-transparent",
                                    format!("{name}: Interrupted at decisions {i},{j} (chunk size {chunk}) changed the result"),
                                    json!({"kind": "interrupt", "file": name, "hex": hex(bytes), "chunk": chunk, "interrupts": [i, j]}),
                                ));
                            }
                        }
                    }
                }
            }
        }
        acc.sample(|| json!({"file": name, "len": bytes.len(), "fault_offsets": offs.len()}));
    });
    let cur = std::mem::take(acc_out);
    *acc_out = cur.merge(a);
    json!({"files_x_encodings": pool.len(), "all_offsets_up_to_bytes": dense, "error_kinds": KINDS.iter().map(|k| kind_name(*k)).collect::<Vec<_>>(),
        "chunkings": ["whole", 1, 7], "interrupt_single_up_to_bytes": 1200, "interrupt_pairs_up_to_bytes": tier.pick(120, 300)})
}

// ---------------------------------------------------------------------------
// write side

fn encode_with(map: &mut Beatmap, w: &mut FaultWriter) -> Result<std::io::Result<()>, String> {
    guarded(|| map.encode(&mut *w))
}

fn write_case(name: &str, fault: &str, at: usize) -> Value {
    json!({"kind": "write-fault", "file": name, "fault": fault, "offset": at})
}

fn check_write(name: &str, map: &mut Beatmap, good: &[u8], fault: WriteFault, at: usize, acc: &mut Acc) {
    let _g = crate::engine::watch::guard("write-fault", |s| s.push_str(&format!("{name} offset {at} fault {fault:?}")));
    acc.evals += 1;
    acc.transitions += 1;
    let mut w = FaultWriter::new(fault, at);
    let res = encode_with(map, &mut w);
    let label = format!("{fault:?}");
    let res = match res {
        Ok(r) => r,
        Err(p) => {
            acc.violation(Violation::new("panic", format!("{name}: {label} at {at}: {p}"), write_case(name, &label, at)));
            return;
        }
    };
    match fault {
        WriteFault::Err(kind) | WriteFault::Flush(kind) | WriteFault::ErrOnce(kind) | WriteFault::FlushInterruptThenErr(_, kind) => {
            let must_fail = matches!(fault, WriteFault::Flush(_) | WriteFault::FlushInterruptThenErr(..)) || at < good.len();
            match res {
                Err(e) if must_fail && e.kind() == kind => {}
                Err(e) if must_fail => acc.violation(Violation::new(
                    "wrong-error-kind",
                    format!("{name}: {label} at {at} surfaced as {:?}", e.kind()),
                    write_case(name, &label, at),
                )),
                Ok(()) if must_fail => acc.violation(Violation::new(
                    "write-fault-swallowed",
                    format!("{name}: {label} at offset {at}/{} but encode returned Ok (writer saw {} bytes, reported {} faults)", good.len(), w.out.len(), w.faults_reported),
                    write_case(name, &label, at),
                )),
                Ok(()) => {
                    if w.out != good {
                        acc.violation(Violation::new("output-differs", format!("{name}: {label} at {at}"), write_case(name, &label, at)));
                    }
                }
                Err(e) => acc.violation(Violation::new(
                    "spurious-error",
                    format!("{name}: no fault reachable at {at} but encode failed with {:?}", e.kind()),
                    write_case(name, &label, at),
                )),
            }
        }
        WriteFault::Zero => {
            let must_fail = at < good.len();
            match res {
                Err(e) if must_fail && e.kind() == ErrorKind::WriteZero => {}
                Err(e) if must_fail => acc.violation(Violation::new(
                    "wrong-error-kind",
                    format!("{name}: zero-length write at {at} surfaced as {:?}", e.kind()),
                    write_case(name, &label, at),
                )),
                Ok(()) if must_fail => acc.violation(Violation::new(
                    "write-fault-swallowed",
                    format!("{name}: writer stopped accepting data at offset {at}/{} but encode returned Ok ({} bytes written)", good.len(), w.out.len()),
                    write_case(name, &label, at),
                )),
                Ok(()) => {}
                Err(e) => acc.violation(Violation::new("spurious-error", format!("{name}: {:?}", e.kind()), write_case(name, &label, at))),
            }
        }
        WriteFault::Short(_) | WriteFault::Interrupt(_) | WriteFault::FlushInterrupt(_) => match res {
            Ok(()) if w.out == good => {}
            Ok(()) => acc.violation(Violation::new(
                "output-differs",
                format!("{name}: {label}: encode returned Ok but the writer received different bytes ({} vs {})", w.out.len(), good.len()),
                write_case(name, &label, at),
            )),
            Err(e) => acc.violation(Violation::new(
                "transient-write-condition-surfaced",
                format!("{name}: {label}: encode failed with {:?}", e.kind()),
                write_case(name, &label, at),
            )),
        },
    }
}

/// maps to encode: the bundled files plus maps with empty sections (an encoder path that returns early still has
/// to report what the writer reports)
fn write_pool() -> Vec<(String, Vec<u8>)> {
    let mut v = crate::env::bundled_files();
    v.push(("synthetic: default map".into(), Vec::new()));
    v.push((
        "synthetic: no hit objects".into(),
        b"osu file format v14\n[Metadata]\nTitle:a\n[Events]\n2,100,200\n[TimingPoints]\n0,500,4,1,0,100,1,0\n[Colours]\nCombo1 : 1,2,3\n".to_vec(),
    ));
    v.push(("synthetic: hit objects only".into(), b"osu file format v9\n[HitObjects]\n1,2,3,1,0\n100,100,500,2,0,L|200:100,1,100\n".to_vec()));
    v.push(("synthetic: mania, no events".into(), b"[General]\nMode: 3\nSpecialStyle: 1\n[HitObjects]\n64,192,0,128,0,500:0:0:0:0:\n".to_vec()));
    v
}

fn write_side(tier: Tier, acc_out: &mut Acc) -> Value {
    let files = write_pool();
    let dense = tier.pick(3000, 60_000);
    let a = par_items(&files, |(name, bytes), acc| {
        let Ok(mut map) = rosu_map::from_bytes::<Beatmap>(bytes) else { return };
        let Ok(good) = map.encode_to_string() else { return };
        let good = good.into_bytes();
        acc.states += 1;
        let offs = offsets(&good, dense, tier.pick(40, 1200));
        for &at in &offs {
            for kind in KINDS {
                if good.len() > dense && kind != ErrorKind::Other {
                    continue;
                }
                check_write(name, &mut map, &good, WriteFault::Err(kind), at, acc);
            }
            // a writer that reports one hard error and then works again: the error must still surface
            check_write(name, &mut map, &good, WriteFault::ErrOnce(ErrorKind::Other), at, acc);
            check_write(name, &mut map, &good, WriteFault::Zero, at, acc);
            acc.nontrivial(&(name, at));
        }
        for kind in KINDS {
            check_write(name, &mut map, &good, WriteFault::Flush(kind), 0, acc);
        }
        // a flush that is merely interrupted (once, three times) is as transient as an interrupted write
        // (the writer holds the bytes back until a flush succeeds); a hard error after any number of interruptions surfaces
        for n in [1usize, 3, 15, 16, 17, 64, 300] {
            check_write(name, &mut map, &good, WriteFault::FlushInterrupt(n), 0, acc);
            check_write(name, &mut map, &good, WriteFault::FlushInterruptThenErr(n, ErrorKind::Other), 0, acc);
        }
        for n in [1usize, 2, 7, 16] {
            if good.len() > 20_000 && n < 7 {
                continue;
            }
            check_write(name, &mut map, &good, WriteFault::Short(n), 0, acc);
        }
        // Interrupted at every write call
        let mut probe = FaultWriter::new(WriteFault::Short(usize::MAX / 2), 0);
        let _ = encode_with(&mut map, &mut probe);
        let calls = probe.calls;
        let step = if calls > tier.pick(3000, 40_000) { calls / tier.pick(300, 3000) } else { 1 };
        let mut i = 0;
        while i < calls {
            check_write(name, &mut map, &good, WriteFault::Interrupt(i), 0, acc);
            i += step;
        }
        acc.sample(|| json!({"map": name, "encoded_len": good.len(), "write_calls": calls, "fault_offsets": offs.len()}));
    });
    let cur = std::mem::take(acc_out);
    *acc_out = cur.merge(a);
    json!({"maps": files.len(), "all_output_offsets_up_to_bytes": dense, "faults": ["Err(kind) x5", "one-off Err then working again", "Ok(0)", "failing flush x5", "buffering writer whose flush is interrupted 1/3/15/16/17/64/300 times, then succeeds or fails hard", "short writes 1/2/7/16", "Interrupted at every write call"]})
}

/// Path entry points: a path that can be opened but not read (a directory), a missing file, a path that cannot be
/// written (a directory, /dev/full): every one must give an error, never a default map or Ok(()).
fn path_entry_points(acc: &mut Acc) -> Value {
    let dir = std::env::temp_dir().join(format!("rmc-c09-dir-{}", std::process::id()));
    let _ = std::fs::create_dir_all(&dir);
    let missing = dir.join("no-such-file.osu");
    let mut cases = 0u64;
    let mut bad = |what: String, acc: &mut Acc| {
        acc.violation(Violation::new("path-fault-swallowed", what, json!({"kind": "path"})));
    };
    for (label, path) in [("a directory", dir.clone()), ("a missing file", missing)] {
        cases += 3;
        acc.evals += 3;
        acc.transitions += 3;
        match guarded(|| rosu_map::from_path::<Beatmap>(&path).map(|m| m.format_version)) {
            Ok(Err(_)) => {}
            other => bad(format!("rosu_map::from_path::<Beatmap>({label}) = {other:?}, expected an error"), acc),
        }
        match guarded(|| Beatmap::from_path(&path).map(|m| m.format_version)) {
            Ok(Err(_)) => {}
            other => bad(format!("Beatmap::from_path({label}) = {other:?}, expected an error"), acc),
        }
        match guarded(|| rosu_map::from_path::<Trace>(&path).map(|t| t.version)) {
            Ok(Err(_)) => {}
            other => bad(format!("from_path::<trace decoder>({label}) = {other:?}, expected an error"), acc),
        }
    }
    let mut targets = vec![("a directory", dir.clone())];
    if std::path::Path::new("/dev/full").exists() {
        targets.push(("/dev/full", std::path::PathBuf::from("/dev/full")));
    }
    for (label, path) in targets {
        for (name, bytes) in write_pool().into_iter().filter(|(n, _)| n.starts_with("synthetic")) {
            let Ok(mut map) = rosu_map::from_bytes::<Beatmap>(&bytes) else { continue };
            cases += 1;
            acc.evals += 1;
            acc.transitions += 1;
            match guarded(|| map.encode_to_path(&path)) {
                Ok(Err(_)) => {}
                other => bad(format!("encode_to_path({label}) of {name} = {other:?}, expected an error"), acc),
            }
        }
    }
    let _ = std::fs::remove_dir_all(&dir);
    json!({"cases": cases, "read": ["directory", "missing file"], "write": ["directory", "/dev/full if present"]})
}

pub fn replay(case: &Value) -> Vec<Violation> {
    let mut acc = Acc::new();
    match case["kind"].as_str().unwrap_or("") {
        "path" => {
            path_entry_points(&mut acc);
        }
        "read-fault" => {
            let name = case["file"].as_str().unwrap_or("?");
            let mut bytes = unhex(case["hex"].as_str().unwrap_or(""));
            if bytes.is_empty() {
                if let Some((_, b)) = file_pool().into_iter().find(|(n, _)| n == name) {
                    bytes = b;
                }
            }
            check_read_fault(
                name,
                &bytes,
                case["offset"].as_u64().unwrap_or(0) as usize,
                kind_from(case["error"].as_str().unwrap_or("Other")),
                case["chunk"].as_u64().unwrap_or(1) as usize,
                case["decoder"] == "Beatmap",
                &mut acc,
            );
        }
        "interrupt" => {
            let bytes = unhex(case["hex"].as_str().unwrap_or(""));
            let chunk = case["chunk"].as_u64().unwrap_or(1) as usize;
            let ints: Vec<usize> = case["interrupts"].as_array().map(|a| a.iter().map(|v| v.as_u64().unwrap() as usize).collect()).unwrap_or_default();
            let cuts: Vec<usize> = if chunk > bytes.len() { vec![] } else { (1..).map(|k| k * chunk).take_while(|c| *c < bytes.len()).collect() };
            let base = trace_res(rosu_map::from_bytes::<Trace>(&bytes));
            let got = trace_res(Trace::decode(CutReader::new(&bytes, &cuts, &ints)));
            if got != base {
                acc.violation(Violation::new("interrupted-not-transparent", format!("{got:?} vs {base:?}"), case.clone()));
            }
        }
        "write-fault" => {
            let name = case["file"].as_str().unwrap_or("?");
            if let Some((_, bytes)) = write_pool().into_iter().find(|(n, _)| n == name) {
                let mut map = rosu_map::from_bytes::<Beatmap>(&bytes).unwrap();
                let good = map.encode_to_string().unwrap().into_bytes();
                let at = case["offset"].as_u64().unwrap_or(0) as usize;
                let f = case["fault"].as_str().unwrap_or("");
                let num = |s: &str| s.chars().filter(|c| c.is_ascii_digit()).collect::<String>().parse::<usize>().unwrap_or(0);
                let kind = KINDS.iter().copied().find(|k| f.contains(&kind_name(*k))).unwrap_or(ErrorKind::Other);
                let fault = if f.starts_with("ErrOnce") {
                    WriteFault::ErrOnce(kind)
                } else if f.starts_with("Err") {
                    WriteFault::Err(kind)
                } else if f.starts_with("Zero") {
                    WriteFault::Zero
                } else if f.starts_with("FlushInterruptThenErr") {
                    WriteFault::FlushInterruptThenErr(num(f), ErrorKind::Other)
                } else if f.starts_with("FlushInterrupt") {
                    WriteFault::FlushInterrupt(num(f))
                } else if f.starts_with("Flush") {
                    WriteFault::Flush(kind)
                } else if f.starts_with("Short") {
                    WriteFault::Short(num(f))
                } else {
                    WriteFault::Interrupt(num(f))
                };
                check_write(name, &mut map, &good, fault, at, &mut acc);
            }
        }
        _ => {}
    }
    acc.viols.into_values().flatten().collect()
}

pub fn run(tier: Tier) -> i32 {
    let run = Run::new("C09", tier, "fault_enumeration");
    let mut acc = Acc::new();
    run_witnesses("C09", &mut acc, &replay);
    let r = read_side(tier, &mut acc);
    let w = write_side(tier, &mut acc);
    let pe = path_entry_points(&mut acc);
    let summary = Summary {
        rule: "read side: every bundled file x 4 encodings x every byte offset 0..=len (dense up to a size limit, else head/tail and \
               line boundaries +-1) x 5 error kinds x chunkings {whole,1,7}: decode must return Err of exactly that kind, never Ok, \
               never panic (trace decoder everywhere, full Beatmap decoder on small files); every placement of one Interrupted (and \
               every pair on tiny files) must give the fault-free result. path entry points: from_path on a directory / a missing file and encode_to_path into a directory or /dev/full must fail. write side: every map (bundled files and four maps with empty sections, incl. the default map) x every output offset x \
               {Err(kind), Ok(0)}, failing flush, short writes, Interrupted at every write call: hard fault => Err of that kind \
               (WriteZero for Ok(0)), transient => Ok with identical bytes. Non-trivial/distinct = distinct (file, fault offset)"
            .into(),
        bounds: json!({"read": r, "write": w, "path_entry_points": pe}),
        exhaustive: true,
        caps_hit: vec![],
        assumptions: vec![
            "faults are persistent once reached (a reader that recovers after a hard error is not modelled)".into(),
            "large files: offsets restricted to head/tail and sampled line boundaries (finite, fully enumerated)".into(),
        ],
    };
    finish(&run, acc, summary)
}
