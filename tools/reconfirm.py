#!/usr/bin/env python3
"""Re-confirms on the current checks that every kept seeded change and every reverted fix is still reported.

For each change: apply to /repo, run the quick checks that reported it before (targeted property first) until one
reports a violation again, undo.  Writes meta.json["reconfirmed"] = {"repo_head", "by"} (or "by": null) and
seeded/reverts/results.json; prints one line per change.  Much cheaper than tools/run_seeded.py (1-2 checks per change).

usage: tools/reconfirm.py [--deadline-min N] [names ...]
"""
import glob, json, os, re, subprocess, sys, time

ROOT = "/verif"
sys.path.insert(0, f"{ROOT}/tools")
import run_seeded as rs


def checks_for(prop, meta):
    prev = [d.split(" ")[0] for d in meta.get("detected_by", [])]
    order = [c for c in [prop] + prev if c]
    seen, out = set(), []
    for c in order + [prop] + rs.RELATED.get(prop, []):
        if c not in seen:
            seen.add(c)
            out.append(c)
    return out, set(prev)


def confirm(patch, checks, stop_after_prev):
    assert rs.sh("git -C /repo diff --quiet").returncode == 0, "/repo has uncommitted changes"
    r = rs.sh(f"git -C /repo apply --3way {patch} && git -C /repo reset -q")
    if r.returncode != 0:
        rs.sh("git -C /repo reset -q --hard HEAD")
        return "PATCH DOES NOT APPLY", []
    tried = []
    try:
        for c in checks:
            out = rs.sh(f"{ROOT}/check {c} quick")
            tried.append(c)
            if out.returncode == 1 and any(l.startswith("VIOLATION") for l in out.stdout.splitlines()):
                classes = sorted({l.split("class=")[1].split(" ")[0] for l in out.stderr.splitlines() if l.lstrip().startswith("class=")})
                return f"{c} quick ({','.join(classes[:4])})", tried
    finally:
        rs.sh("git -C /repo checkout -- . && git -C /repo clean -fdq src tests")
    return None, tried


def main():
    args = sys.argv[1:]
    deadline = None
    if args[:1] == ["--deadline-min"]:
        deadline = time.time() + 60 * float(args[1])
        args = args[2:]
    only = set(args)
    head = rs.sh("git -C /repo rev-parse --short HEAD").stdout.strip()
    rpath = f"{ROOT}/seeded/reverts/results.json"
    rres = json.load(open(rpath)) if os.path.exists(rpath) else {}
    work = []
    for patch in sorted(glob.glob(f"{ROOT}/seeded/reverts/*.diff")):
        work.append(("revert", os.path.basename(patch)[:-5], patch))
    for d in sorted(x for x in glob.glob(f"{ROOT}/seeded/C*-*") if os.path.isdir(x)):
        work.append(("seed", os.path.basename(d), f"{d}/patch.diff"))
    for kind, name, patch in work:
        if only and name not in only:
            continue
        if deadline and time.time() > deadline:
            print("deadline reached, stopping", flush=True)
            break
        if kind == "revert":
            props = rs.REVERT_PROPS.get(name.split("-")[-1], [])
            by, tried = confirm(patch, props, False)
            rres[name] = [name, "/".join(props), by or "-", ", ".join(f"{c} quick" for c in tried if not (by and by.startswith(c))) or "-"]
            json.dump(rres, open(rpath, "w"), indent=1, sort_keys=True)
        else:
            mp = os.path.dirname(patch) + "/meta.json"
            meta = json.load(open(mp)) if os.path.exists(mp) else {}
            if meta.get("reconfirmed", {}).get("repo_head") == head and meta["reconfirmed"].get("by"):
                continue
            checks, _ = checks_for(name.split("-")[0], meta)
            by, tried = confirm(patch, checks, True)
            meta["reconfirmed"] = {"repo_head": head, "by": by, "checks_tried": tried}
            json.dump(meta, open(mp, "w"), indent=1)
        print((name, by or "NOT DETECTED", tried), flush=True)
    rs.write_results(rres)


if __name__ == "__main__":
    main()
