//! rmc-tr — the C01 totality body against the `tracing` feature build of
//! rosu-map, with a subscriber that formats every event (so that every
//! Display/source() impl of the error types is executed).
//! usage: rmc-tr <quick|thorough>   (prints one "@@TR {json}" summary line)

#[path = "../../rmc/src/props/c01_body.rs"]
mod c01_body;
#[path = "../../rmc/src/props/gen.rs"]
#[allow(dead_code)]
mod gen;

use std::{
    io::Write,
    panic::{self, AssertUnwindSafe},
    sync::atomic::{AtomicU64, Ordering},
    sync::Mutex,
};

use rayon::prelude::*;

static EVENTS: AtomicU64 = AtomicU64::new(0);
static BYTES: AtomicU64 = AtomicU64::new(0);

#[derive(Clone, Copy)]
struct Sink;
impl Write for Sink {
    fn write(&mut self, buf: &[u8]) -> std::io::Result<usize> {
        EVENTS.fetch_add(1, Ordering::Relaxed);
        BYTES.fetch_add(buf.len() as u64, Ordering::Relaxed);
        Ok(buf.len())
    }
    fn flush(&mut self) -> std::io::Result<()> {
        Ok(())
    }
}

const SIGMA: [u8; 21] = [
    0xEF, 0xBB, 0xBF, 0xFF, 0xFE, 0x00, 0x0A, 0x0D, 0x20, b'[', b']', b'/', b':', b',', b'|', b'v', b'1', b'-', 0x80, 0xC3, 0xD8,
];

fn hex(b: &[u8]) -> String {
    b.iter().map(|x| format!("{x:02x}")).collect()
}

fn inputs(thorough: bool) -> Vec<Vec<u8>> {
    let mut v: Vec<Vec<u8>> = Vec::new();
    // all byte strings up to length 3 (4)
    let n = if thorough { 4 } else { 3 };
    for len in 0..=n {
        for idx in 0..(SIGMA.len() as u64).pow(len as u32) {
            let mut k = idx;
            let mut s = Vec::new();
            for _ in 0..len {
                s.push(SIGMA[(k % SIGMA.len() as u64) as usize]);
                k /= SIGMA.len() as u64;
            }
            v.push(s);
        }
    }
    // every record of the baseline / alphabets with one hostile field (every error type is produced)
    let base = gen::baseline(0, 14);
    for mode in [0u8, 3] {
        for (section, recs) in &base.sections {
            let mut all: Vec<String> = recs.clone();
            all.extend(gen::record_alphabet(section).iter().map(|r| gen::at_time(r, 1000)));
            for r in all {
                let seps: &[char] = &[',', ':', '|'];
                let fields: Vec<&str> = r.split(seps).collect();
                for f in 0..fields.len().min(16) {
                    for h in gen::HOSTILE {
                        // rebuild with original separators
                        let mut out = String::new();
                        let mut field = 0;
                        let mut cur = String::new();
                        for ch in r.chars() {
                            if seps.contains(&ch) {
                                out.push_str(if field == f { h } else { &cur });
                                cur.clear();
                                out.push(ch);
                                field += 1;
                            } else {
                                cur.push(ch);
                            }
                        }
                        out.push_str(if field == f { h } else { &cur });
                        v.push(format!("osu file format vX\nosu file format v14\n[General]\nMode: {mode}\n[{section}]\n{out}\n").into_bytes());
                    }
                }
            }
        }
    }
    // every truncation of the small bundled files (UTF-8 and UTF-16LE)
    if let Ok(rd) = std::fs::read_dir("/repo/resources") {
        let mut names: Vec<_> = rd.filter_map(|e| e.ok()).map(|e| e.path()).collect();
        names.sort();
        for p in names {
            let Ok(b) = std::fs::read(&p) else { continue };
            if b.len() > 1024 {
                v.push(b);
                continue;
            }
            for c in 0..=b.len() {
                v.push(b[..c].to_vec());
            }
            let text = String::from_utf8_lossy(&b).into_owned();
            let mut le = vec![0xFF, 0xFE];
            for u in text.encode_utf16() {
                le.extend_from_slice(&u.to_le_bytes());
            }
            for c in (0..=le.len()).step_by(if thorough { 1 } else { 3 }) {
                v.push(le[..c].to_vec());
            }
        }
    }
    v
}

fn main() {
    let thorough = std::env::args().nth(1).as_deref() == Some("thorough");
    panic::set_hook(Box::new(|_| {}));
    tracing_subscriber::fmt()
        .with_max_level(tracing::Level::TRACE)
        .with_writer(|| Sink)
        .init();
    let ins = inputs(thorough);
    let failures: Mutex<Vec<serde_json::Value>> = Mutex::new(Vec::new());
    ins.par_iter().for_each(|bytes| {
        let guard = |f: &mut dyn FnMut()| panic::catch_unwind(AssertUnwindSafe(|| f())).map_err(|_| "panic (tracing build)".to_string());
        let out = c01_body::totality(bytes, &guard);
        if !out.failures.is_empty() {
            let mut g = failures.lock().unwrap();
            if g.len() < 20 {
                for (class, msg) in out.failures {
                    g.push(serde_json::json!({"class": class, "msg": msg, "hex": hex(bytes)}));
                }
            }
        }
    });
    let f = failures.into_inner().unwrap();
    println!(
        "@@TR {}",
        serde_json::json!({"evals": ins.len(), "events": EVENTS.load(Ordering::Relaxed), "event_bytes": BYTES.load(Ordering::Relaxed), "failures": f})
    );
}
