//! C15 — map-level processing of hit objects: order, combos, velocity,
//! sample defaults, shift invariance.  E1 over every small map assembled from
//! object / break / timing-line / mode / multiplier alphabets.

use std::num::NonZeroU32;

use rosu_map::{
    section::{
        general::GameMode,
        hit_objects::{
            hit_samples::{HitSampleInfo, HitSampleInfoName, SampleBank},
            HitObject, HitObjectKind, HitObjects,
        },
        timing_points::SamplePoint,
    },
    DecodeBeatmap, DecodeState,
};
use serde_json::{json, Value};

use super::c13::RefCp;
use crate::engine::{digits, finish, guarded, par_range, product, run_witnesses, Acc, Run, Summary, Tier, Violation};

/// stands for the time text "-0" (numerically equal to 0, ordered before it by total_cmp)
const NEG_ZERO: i64 = i64::MIN;
const TIMES: [i64; 5] = [0, 1000, 2000, 3000, NEG_ZERO];

/// object line `kind` at time `t` (shifted by `d`), carrying a distinguishing x
fn object_line(kind: usize, slot: usize, t: i64, d: i64) -> String {
    let x = 16 + 40 * kind + 3 * slot;
    let y = 100 + 7 * slot;
    let neg_zero = t == NEG_ZERO && d == 0;
    let t = if t == NEG_ZERO { d } else { t + d };
    let tt = if neg_zero { "-0".to_string() } else { t.to_string() };
    let t_text = tt.as_str();
    match kind {
        0 => format!("{x},{y},{t_text},1,0"),
        1 => format!("{x},{y},{t_text},5,2,1:2:0:0:"),
        2 => format!("{x},{y},{t_text},1,8,0:0:3:40:"),
        3 => format!("{x},{y},{t_text},2,0,L|{}:{y},1,70", x + 70),
        4 => format!("{x},{y},{t_text},2,2,B|{}:{}|{}:{y},2,140,2|0|4,0:0|1:2|0:0", x + 60, y + 60, x + 120),
        5 => format!("256,192,{t_text},8,0,{}", t + 600),
        6 => format!("{x},192,{t_text},128,0,{}:0:0:0:0:", t + 400),
        7 => format!("{x},{y},{t_text},1,0,0:0:0:0:f.wav"),
        // custom index given, volume left to the sample point
        8 => format!("{x},{y},{t_text},1,4,0:0:2:0:"),
        // the last control point twice and a requested length beyond the path: the curve keeps its own length (70)
        9 => format!("{x},{y},{t_text},2,0,L|{}:{y}|{}:{y},2,140", x + 70, x + 70),
        // a slider without any further control point: its curve has length 0 whatever length is requested
        10 => format!("{x},{y},{t_text},2,0,L,1,50"),
        // the same relative shape as kind 3 with another requested length
        _ => format!("{x},{y},{t_text},2,0,L|{}:{y},1,35", x + 70),
    }
}

const BREAKS: [&[(i64, i64)]; 8] = [
    &[],
    &[(400, 900)],
    &[(1100, 1900)],
    &[(400, 900), (2100, 2900)],
    &[(1000, 2000)],
    &[(400, 999)],
    &[(400, 1000)],
    &[(400, 1001)],
];

const TIMING: [(i64, &str); 12] = [
    (0, "500,4,1,0,100,1,0"),
    (0, "300,4,2,1,60,1,0"),
    (1000, "-50,4,1,0,100,0,0"),
    (1000, "-200,4,2,0,30,0,1"),
    (1004, "-100,4,3,2,50,0,0"),
    (1005, "-100,4,3,2,50,0,0"),
    (1006, "-100,4,3,2,50,0,0"),
    (2000, "600,4,1,0,80,1,0"),
    (999, "-1000,4,1,0,100,0,0"),
    (1001, "-10,4,1,0,100,0,0"),
    // with the first line: sample settings A -> B -> A (two different sections with identical settings)
    (1200, "-100,4,2,1,60,0,0"),
    (1700, "-100,4,1,0,100,0,0"),
];

fn timing_sets(full: bool) -> Vec<Vec<usize>> {
    let mut v: Vec<Vec<usize>> = vec![vec![]];
    for i in 0..TIMING.len() {
        v.push(vec![i]);
    }
    for i in 0..TIMING.len() {
        for j in i + 1..TIMING.len() {
            if TIMING[i].0 <= TIMING[j].0 && (full || i == 0 || (i == 2 && j >= 4) || (i == 7)) {
                v.push(vec![i, j]);
            }
        }
    }
    // a few chronological pairs not covered by index order
    v.push(vec![8, 2]);
    v.push(vec![8, 9]);
    v.push(vec![2, 9]);
    v.push(vec![0, 8]);
    v.push(vec![0, 10, 11]);
    v.push(vec![10, 11]);
    v.sort();
    v.dedup();
    v.retain(|s| s.windows(2).all(|w| TIMING[w[0]].0 <= TIMING[w[1]].0));
    v
}

const SMS: [&str; 3] = ["0.4", "1.4", "3.6"];

#[derive(Clone, Debug)]
pub struct Spec {
    pub objects: Vec<(usize, i64)>, // (kind, time) in file order
    pub breaks: usize,
    pub timing: Vec<usize>,
    pub mode: u8,
    pub sm: usize,
}

impl Spec {
    fn json(&self) -> Value {
        json!({"objects": self.objects, "breaks": self.breaks, "timing": self.timing, "mode": self.mode, "sm": self.sm})
    }
    fn from_json(v: &Value) -> Self {
        Self {
            objects: v["objects"].as_array().unwrap().iter().map(|o| (o[0].as_u64().unwrap() as usize, o[1].as_i64().unwrap())).collect(),
            breaks: v["breaks"].as_u64().unwrap() as usize,
            timing: v["timing"].as_array().unwrap().iter().map(|t| t.as_u64().unwrap() as usize).collect(),
            mode: v["mode"].as_u64().unwrap() as u8,
            sm: v["sm"].as_u64().unwrap() as usize,
        }
    }
    pub fn object_lines(&self, d: i64) -> Vec<String> {
        self.objects.iter().enumerate().map(|(slot, (k, t))| object_line(*k, slot, *t, d)).collect()
    }
    pub fn text(&self, d: i64) -> String {
        let mut s = format!(
            "osu file format v14\n\n[General]\nMode: {}\n\n[Difficulty]\nSliderMultiplier: {}\n\n[Events]\n",
            self.mode, SMS[self.sm]
        );
        for (a, b) in BREAKS[self.breaks] {
            s.push_str(&format!("2,{},{}\n", a + d, b + d));
        }
        s.push_str("\n[TimingPoints]\n");
        for &i in &self.timing {
            s.push_str(&format!("{},{}\n", TIMING[i].0 + d, TIMING[i].1));
        }
        s.push_str("\n[HitObjects]\n");
        for l in self.object_lines(d) {
            s.push_str(&l);
            s.push('\n');
        }
        s
    }
}

fn raw_objects(spec: &Spec, d: i64) -> Vec<HitObject> {
    let mut st = <HitObjects as DecodeBeatmap>::State::create(14);
    let _ = HitObjects::parse_general(&mut st, &format!("Mode: {}", spec.mode));
    for l in spec.object_lines(d) {
        let _ = HitObjects::parse_hit_objects(&mut st, &l);
    }
    st.hit_objects
}

fn apply_sample_point(sp: &SamplePoint, s: &mut HitSampleInfo) {
    let vol = sp.sample_volume.clamp(0, 100);
    match s.name {
        HitSampleInfoName::Default(_) => {
            if s.custom_sample_bank == 0 {
                s.custom_sample_bank = sp.custom_sample_bank;
                if s.custom_sample_bank >= 2 {
                    s.suffix = NonZeroU32::new(s.custom_sample_bank as u32);
                }
            }
            if s.volume == 0 {
                s.volume = vol;
            }
            if !s.bank_specified {
                s.bank = sp.sample_bank;
                s.bank_specified = true;
            }
        }
        HitSampleInfoName::File(_) => {
            s.bank = SampleBank::Normal;
            s.suffix = None;
            if s.volume == 0 {
                s.volume = vol;
            }
            s.custom_sample_bank = 1;
            s.bank_specified = false;
            s.is_layered = false;
        }
    }
}

/// A lookup time computed from a slider duration (not exactly representable)
/// that lands within 1e-6 ms of a sample point: which side it falls on is a
/// matter of float rounding, not of the property.
fn razor_edge(cp: &RefCp, t: f64) -> bool {
    cp.s.iter().any(|p| (p.time - t).abs() < 1e-6)
}

fn slider_lookup_times(map: &HitObjects) -> Vec<f64> {
    let mut v = Vec::new();
    for h in &map.hit_objects {
        if let HitObjectKind::Slider(s) = &h.kind {
            let mut c = s.clone();
            let dur = c.duration();
            let spans = f64::from(s.repeat_count + 1);
            for n in 0..=s.repeat_count + 1 {
                v.push(h.start_time + f64::from(n) * dur / spans + 5.0);
            }
            v.push(h.start_time + dur + 5.0);
        }
    }
    v
}

fn rel_close(a: f64, b: f64) -> bool {
    a == b || (a - b).abs() <= 1e-12 * a.abs().max(b.abs())
}

/// Checks one decoded map against the statement; `d` is the time shift used.
fn check_map(spec: &Spec, d: i64, map: &HitObjects) -> Option<(String, String)> {
    let raw = raw_objects(spec, d);
    // (1) order + stability
    if map.hit_objects.len() != raw.len() {
        return Some(("object-count".into(), format!("{} objects decoded, {} lines accepted", map.hit_objects.len(), raw.len())));
    }
    if map.hit_objects.windows(2).any(|w| w[0].start_time > w[1].start_time) {
        return Some(("not-sorted".into(), format!("{:?}", map.hit_objects.iter().map(|h| h.start_time).collect::<Vec<_>>())));
    }
    // reference stable sort (insertion sort keeps file order among equal times)
    let mut expect: Vec<HitObject> = Vec::with_capacity(raw.len());
    for h in raw {
        let mut i = expect.len();
        while i > 0 && expect[i - 1].start_time > h.start_time {
            i -= 1;
        }
        expect.insert(i, h);
    }
    // (2) first object after each break starts a new combo
    let breaks: Vec<(f64, f64)> = BREAKS[spec.breaks].iter().map(|(a, b)| ((a + d) as f64, (b + d) as f64)).collect();
    for (_, end) in &breaks {
        if let Some(h) = expect.iter_mut().find(|h| h.start_time > *end) {
            match &mut h.kind {
                HitObjectKind::Circle(c) => c.new_combo = true,
                HitObjectKind::Slider(s) => s.new_combo = true,
                HitObjectKind::Spinner(s) => s.new_combo = true,
                HitObjectKind::Hold(_) => {}
            }
        }
    }
    // the order must be the stable sort of the FILE's lines (not of whatever order the parser state holds): every
    // line carries a distinguishing x position
    {
        let time_of = |t: i64| if t == NEG_ZERO { 0 } else { t };
        let mut slots: Vec<usize> = (0..spec.objects.len()).collect();
        slots.sort_by_key(|&s| time_of(spec.objects[s].1)); // stable
        if slots.len() == map.hit_objects.len() {
            for (i, (&slot, got)) in slots.iter().zip(&map.hit_objects).enumerate() {
                let kind = spec.objects[slot].0;
                let want_x = (16 + 40 * kind + 3 * slot) as f32;
                let got_x = match &got.kind {
                    HitObjectKind::Circle(c) => Some(c.pos.x),
                    HitObjectKind::Slider(s) => Some(s.pos.x),
                    HitObjectKind::Hold(h) => Some(h.pos_x),
                    HitObjectKind::Spinner(_) => None,
                };
                let kind_ok = matches!(
                    (&got.kind, kind),
                    (HitObjectKind::Circle(_), 0 | 1 | 2 | 7 | 8) | (HitObjectKind::Slider(_), 3 | 4 | 9 | 10 | 11) | (HitObjectKind::Spinner(_), 5) | (HitObjectKind::Hold(_), 6)
                );
                if !kind_ok || got_x.is_some_and(|x| x != want_x) {
                    return Some((
                        "unstable-order".into(),
                        format!("object {i} is not the file's line {slot} (kind {kind}, x {want_x}): got {:?} at x {got_x:?}; equal start times keep file order", std::mem::discriminant(&got.kind)),
                    ));
                }
            }
        }
    }
    let cp = RefCp {
        t: map.control_points.timing_points.clone(),
        d: map.control_points.difficulty_points.clone(),
        e: map.control_points.effect_points.clone(),
        s: map.control_points.sample_points.clone(),
    };
    let sm: f64 = SMS[spec.sm].parse().unwrap();
    let mode = GameMode::from(spec.mode);
    for (i, (got, want)) in map.hit_objects.iter().zip(expect.iter_mut()).enumerate() {
        if got.start_time != want.start_time {
            return Some(("unstable-order".into(), format!("object {i}: start {} but file-order-stable sort puts {} there", got.start_time, want.start_time)));
        }
        let mut end_time = want.start_time;
        match (&got.kind, &mut want.kind) {
            (HitObjectKind::Slider(g), HitObjectKind::Slider(w)) => {
                if g.pos != w.pos {
                    return Some(("unstable-order".into(), format!("object {i}: slider at {:?}, expected the one at {:?}", g.pos, w.pos)));
                }
                // (3) velocity and duration closed forms
                let bl = cp.timing_at(want.start_time).map_or(1000.0, |p| p.beat_len);
                let sv = cp.difficulty_at(want.start_time).map_or(1.0, |p| p.slider_velocity);
                let hi = if matches!(mode, GameMode::Osu | GameMode::Catch) { 10_000.0 } else { 1000.0 };
                let mut scale = 100.0 / sv;
                if scale < 10.0 {
                    scale = 10.0;
                }
                if scale > hi {
                    scale = hi;
                }
                let v = 100.0 * sm / (bl * scale / 100.0);
                if !rel_close(g.velocity, v) {
                    return Some(("slider-velocity".into(), format!("object {i}: velocity {}, closed form {v} (beat length {bl}, SV {sv}, multiplier {sm}, {mode:?})", g.velocity)));
                }
                let mut gc = g.clone();
                let dist = gc.path.curve().dist();
                // the curve a decoded slider carries is the curve of ITS control points and requested length
                let own = rosu_map::section::hit_objects::Curve::new(mode, g.path.control_points(), g.path.expected_dist(), &mut rosu_map::section::hit_objects::CurveBuffers::default());
                if own.dist().to_bits() != dist.to_bits() || !super::curves::same_points(own.path(), gc.path.curve().path()) {
                    return Some(("slider-curve-not-its-own".into(), format!("object {i}: cached curve has distance {dist}, the curve of its own control points / length {:?} has {}", g.path.expected_dist(), own.dist())));
                }
                let spans = f64::from(g.repeat_count + 1);
                let dur = spans * dist / v;
                if !rel_close(gc.duration(), dur) {
                    return Some(("slider-duration".into(), format!("object {i}: duration {}, closed form {dur}", gc.duration())));
                }
                end_time = want.start_time + dur;
                // node samples: sample point active 5 ms after each node
                for (n, node) in w.node_samples.iter_mut().enumerate() {
                    let t = want.start_time + n as f64 * dur / spans + 5.0;
                    if razor_edge(&cp, t) {
                        *node = g.node_samples.get(n).cloned().unwrap_or_default();
                        continue;
                    }
                    let sp = cp.sample_at(t).cloned().unwrap_or_default();
                    for s in node.iter_mut() {
                        apply_sample_point(&sp, s);
                    }
                }
                if g.node_samples != w.node_samples || !super::gen::same_node_samples(&g.node_samples, &w.node_samples) {
                    return Some(("node-sample-defaults".into(), format!("object {i}: node samples {:?}, expected {:?}", g.node_samples, w.node_samples)));
                }
                if g.new_combo != w.new_combo || g.combo_offset != w.combo_offset {
                    return Some(("new-combo-after-break".into(), format!("object {i} (slider at {}): new_combo {}, expected {}", got.start_time, g.new_combo, w.new_combo)));
                }
                if !super::gen::same_control_points(g.path.control_points(), w.path.control_points()) || g.repeat_count != w.repeat_count {
                    return Some(("slider-changed".into(), format!("object {i}")));
                }
            }
            (HitObjectKind::Circle(g), HitObjectKind::Circle(w)) => {
                if g.pos != w.pos {
                    return Some(("unstable-order".into(), format!("object {i}: circle at {:?}, expected the one at {:?} (equal start times keep file order)", g.pos, w.pos)));
                }
                if g != w {
                    return Some(("new-combo-after-break".into(), format!("object {i} (circle at {}): {g:?}, expected {w:?}", got.start_time)));
                }
            }
            (HitObjectKind::Spinner(g), HitObjectKind::Spinner(w)) => {
                if g != w {
                    return Some(("new-combo-after-break".into(), format!("object {i} (spinner at {}): {g:?}, expected {w:?}", got.start_time)));
                }
                end_time = want.start_time + w.duration;
            }
            (HitObjectKind::Hold(g), HitObjectKind::Hold(w)) => {
                if g != w {
                    return Some(("hold-changed".into(), format!("object {i}: {g:?} vs {w:?}")));
                }
                end_time = want.start_time + w.duration;
            }
            _ => return Some(("unstable-order".into(), format!("object {i}: kind differs from the stable-sorted raw object"))),
        }
        // (4) sample defaults: sample point active 5 ms after the end
        let sp = cp.sample_at(end_time + 5.0).cloned().unwrap_or_default();
        for s in want.samples.iter_mut() {
            apply_sample_point(&sp, s);
        }
        let edge = matches!(got.kind, HitObjectKind::Slider(_)) && razor_edge(&cp, end_time + 5.0);
        if !edge && (got.samples != want.samples || !super::gen::same_samples(&got.samples, &want.samples)) {
            return Some(("sample-defaults".into(), format!("object {i} at {} (end {end_time}): samples {:?}, expected {:?} from sample point {sp:?}", got.start_time, got.samples, want.samples)));
        }
    }
    None
}

fn decode(text: &str) -> Result<HitObjects, String> {
    match guarded(|| rosu_map::from_str::<HitObjects>(text)) {
        Ok(Ok(m)) => Ok(m),
        Ok(Err(e)) => Err(format!("Err({:?})", e.kind())),
        Err(p) => Err(format!("panic: {p}")),
    }
}

fn shifted(map: &HitObjects, d: f64) -> HitObjects {
    let mut m = map.clone();
    for h in m.hit_objects.iter_mut() {
        h.start_time += d;
    }
    for p in m.control_points.timing_points.iter_mut() {
        p.time += d;
    }
    for p in m.control_points.difficulty_points.iter_mut() {
        p.time += d;
    }
    for p in m.control_points.effect_points.iter_mut() {
        p.time += d;
    }
    for p in m.control_points.sample_points.iter_mut() {
        p.time += d;
    }
    for b in m.breaks.iter_mut() {
        b.start_time += d;
        b.end_time += d;
    }
    m
}

fn same_map(a: &HitObjects, b: &HitObjects) -> Option<String> {
    if a.control_points != b.control_points {
        return Some("control points".into());
    }
    if a.breaks != b.breaks {
        return Some("breaks".into());
    }
    if a.hit_objects.len() != b.hit_objects.len() {
        return Some("object count".into());
    }
    for (i, (x, y)) in a.hit_objects.iter().zip(&b.hit_objects).enumerate() {
        if x.start_time != y.start_time || x.samples != y.samples || !super::gen::same_samples(&x.samples, &y.samples) {
            return Some(format!("object {i} start/samples: {:?} vs {:?}", (x.start_time, &x.samples), (y.start_time, &y.samples)));
        }
        match (&x.kind, &y.kind) {
            (HitObjectKind::Slider(p), HitObjectKind::Slider(q)) => {
                if p.velocity.to_bits() != q.velocity.to_bits() || p.node_samples != q.node_samples || !super::gen::same_node_samples(&p.node_samples, &q.node_samples) || p.new_combo != q.new_combo || p.pos != q.pos {
                    return Some(format!("slider {i}: velocity/node samples/combo differ"));
                }
            }
            (p, q) => {
                if p != q {
                    return Some(format!("object {i}: {p:?} vs {q:?}"));
                }
            }
        }
    }
    None
}

fn check_spec(spec: &Spec, shifts: &[i64], acc: &mut Acc) {
    let _g = crate::engine::watch::guard("spec", |s| s.push_str(&spec.json().to_string()));
    acc.evals += 1;
    acc.transitions += spec.objects.len() as u64 + spec.timing.len() as u64;
    let text = spec.text(0);
    let base = match decode(&text) {
        Ok(m) => m,
        Err(e) => {
            acc.violation(Violation::new("decode-failed", e, json!({"kind": "spec", "spec": spec.json(), "shift": 0})));
            return;
        }
    };
    match guarded(|| check_map(spec, 0, &base)) {
        Ok(None) => {}
        Ok(Some((class, msg))) => acc.violation(Violation::new(class, format!("{:?}: {msg}", spec.json().to_string()), json!({"kind": "spec", "spec": spec.json(), "shift": 0}))),
        Err(p) => acc.violation(Violation::new("panic", p, json!({"kind": "spec", "spec": spec.json(), "shift": 0}))),
    }
    // shifting changes how slider end/node times round; skip the maps where
    // such a time lies within 1e-6 ms of a sample point (counted)
    let cp = RefCp { t: vec![], d: vec![], e: vec![], s: base.control_points.sample_points.clone() };
    if !shifts.is_empty() && slider_lookup_times(&base).iter().any(|t| razor_edge(&cp, *t)) {
        acc.count("shift_checks_skipped_float_razor_edge", 1);
        return;
    }
    for &d in shifts {
        acc.evals += 1;
        acc.transitions += 1;
        match decode(&spec.text(d)) {
            Ok(m) => {
                if let Some(diff) = same_map(&m, &shifted(&base, d as f64)) {
                    acc.violation(Violation::new(
                        "shift-invariance",
                        format!("{}: shifting every time by {d} ms changes {diff}", spec.json()),
                        json!({"kind": "spec", "spec": spec.json(), "shift": d}),
                    ));
                }
            }
            Err(e) => acc.violation(Violation::new("decode-failed", e, json!({"kind": "spec", "spec": spec.json(), "shift": d}))),
        }
    }
    let sliders = spec.objects.iter().filter(|o| [3, 4, 9, 10, 11].contains(&o.0)).count();
    if sliders > 0 || spec.breaks > 0 {
        acc.nontrivial(&format!("{:?}", base.hit_objects));
    }
}

pub fn replay(case: &Value) -> Vec<Violation> {
    let spec = Spec::from_json(&case["spec"]);
    let d = case["shift"].as_i64().unwrap_or(0);
    let mut acc = Acc::new();
    check_spec(&spec, &if d != 0 { vec![d] } else { vec![] }, &mut acc);
    acc.viols.into_values().flatten().collect()
}

pub fn run(tier: Tier) -> i32 {
    let run = Run::new("C15", tier, "model_checking");
    let mut acc = Acc::new();
    run_witnesses("C15", &mut acc, &replay);
    let obj_alpha: Vec<(usize, i64)> = (0..12).flat_map(|k| TIMES.iter().map(move |t| (k, *t))).collect();
    let mut bounds = Vec::new();
    let plans: Vec<(usize, Vec<Vec<usize>>, Vec<u8>, Vec<usize>)> = if tier.thorough() {
        vec![
            (2, timing_sets(true), vec![0, 1, 2, 3], vec![0, 1, 2]),
            (3, timing_sets(false), vec![0, 3], vec![1]),
        ]
    } else {
        vec![(2, timing_sets(false), vec![0, 1, 2, 3], vec![0, 1, 2]), (3, vec![vec![], vec![0, 2], vec![5]], vec![0], vec![1])]
    };
    for (max_objs, tsets, modes, sms) in plans {
        for n in 0..=max_objs {
            if max_objs == 3 && n < 3 {
                continue;
            }
            let radices: Vec<u64> = std::iter::repeat(obj_alpha.len() as u64)
                .take(n)
                .chain([BREAKS.len() as u64, tsets.len() as u64, modes.len() as u64, sms.len() as u64])
                .collect();
            let total = product(&radices);
            let a = par_range(total, |idx, acc| {
                let mut d = Vec::new();
                digits(idx, &radices, &mut d);
                let spec = Spec {
                    objects: d[..n].iter().map(|&i| obj_alpha[i]).collect(),
                    breaks: d[n],
                    timing: tsets[d[n + 1]].clone(),
                    mode: modes[d[n + 2]],
                    sm: sms[d[n + 3]],
                };
                acc.states += 1;
                let shifts: &[i64] = if idx % 4 == 0 { &[1000, -1, 1_000_000, -1_000_000, 1, -1000] } else { &[] };
                check_spec(&spec, shifts, acc);
                if idx % 500_009 == 5 {
                    acc.sample(|| spec.json());
                }
            });
            bounds.push(json!({"objects": n, "object_alphabet": obj_alpha.len(), "breaks": BREAKS.len(), "timing_sets": tsets.len(),
                "modes": modes.len(), "multipliers": sms.len(), "maps": total}));
            acc = acc.merge(a);
        }
    }
    let summary = Summary {
        rule: "every map assembled from n object lines in ANY file order (12 object kinds x 5 times, each with a distinguishing \
               position) x 8 break lists (incl. break end =, < and > an object start) x sets of <= 2 timing lines and one of 3 with sample settings A->B->A (sample points at \
               +4/+5/+6 ms, SV 0.1/0.5/2/10, two timing points) x modes x slider multipliers {0.4,1.4,3.6}: decoded objects must be \
               the stable sort of the raw objects, first combo-capable object after each break flagged, slider velocity and \
               duration equal their closed forms (1e-12), samples/node samples completed from the sample point active 5 ms after \
               end/node; every fourth map is additionally re-decoded with all times shifted by +-1, +-1000, +-10^6 ms and must be \
               the shifted original. distinct_nontrivial = distinct decoded object lists among maps with sliders or breaks"
            .into(),
        bounds: json!({"plans": bounds}),
        exhaustive: true,
        caps_hit: vec![],
        assumptions: vec![
            "breaks are given in chronological, non-overlapping order (legacy precondition, DESIGN section 7)".into(),
            "raw objects are taken from the real line parser (C14's subject); control points from the real decoder (C12's subject)".into(),
        ],
    };
    finish(&run, acc, summary)
}
