//! Shared file generators: full-featured baseline files per mode, record
//! alphabets (valid, boundary, hostile) per section and corruption operators.

pub const SECTION_NAMES: [&str; 8] = [
    "General",
    "Editor",
    "Metadata",
    "Difficulty",
    "Events",
    "TimingPoints",
    "Colours",
    "HitObjects",
];

/// A file as a version line plus (section, records).
#[derive(Clone, Debug)]
pub struct FileSpec {
    pub version: i32,
    pub sections: Vec<(&'static str, Vec<String>)>,
}

impl FileSpec {
    pub fn text(&self) -> String {
        let mut s = format!("osu file format v{}\n", self.version);
        for (name, recs) in &self.sections {
            s.push_str(&format!("\n[{name}]\n"));
            for r in recs {
                s.push_str(r);
                s.push('\n');
            }
        }
        s
    }
    pub fn section_mut(&mut self, name: &str) -> &mut Vec<String> {
        let i = self.sections.iter().position(|(n, _)| *n == name).expect("section");
        &mut self.sections[i].1
    }
}

fn v(lines: &[&str]) -> Vec<String> {
    lines.iter().map(|s| (*s).to_string()).collect()
}

/// Full-featured, chronologically ordered baseline per mode.
pub fn baseline(mode: u8, version: i32) -> FileSpec {
    let mode_line = format!("Mode: {mode}");
    let general = vec![
        "AudioFilename: audio.mp3".to_string(),
        "AudioLeadIn: 1500".into(),
        "PreviewTime: 12345".into(),
        "Countdown: 2".into(),
        "SampleSet: Soft".into(),
        "StackLeniency: 0.35".into(),
        mode_line,
        "LetterboxInBreaks: 1".into(),
        "SpecialStyle: 1".into(),
        "WidescreenStoryboard: 1".into(),
        "EpilepsyWarning: 1".into(),
        "SamplesMatchPlaybackRate: 1".into(),
        "CountdownOffset: 3".into(),
    ];
    let editor = v(&["Bookmarks: 100,2000,-5", "DistanceSpacing: 1.25", "BeatDivisor: 7", "GridSize: 16", "TimelineZoom: 2.5"]);
    let metadata = v(&[
        "Title:Re:Zero // not a comment",
        "TitleUnicode:\u{4E0A}\u{3042}",
        "Artist:a,b",
        "ArtistUnicode:\u{E9}",
        "Creator:c",
        "Version:v [x]",
        "Source:s",
        "Tags:a b c",
        "BeatmapID:123",
        "BeatmapSetID:456",
    ]);
    let difficulty = v(&[
        "HPDrainRate:3.3",
        "CircleSize:4.2",
        "OverallDifficulty:8.5",
        "ApproachRate:9.3",
        "SliderMultiplier:1.7",
        "SliderTickRate:2",
    ]);
    let events = v(&["0,0,\"bg.jpg\",0,0", "2,1500,2400", "2,4000,4900"]);
    let timing = v(&[
        "0,500,4,2,0,60,1,0",
        "1000,-50,4,2,1,60,0,1",
        "2500,333.33,3,3,0,80,1,8",
        "2500,-200,4,3,0,80,0,0",
        "5000,-100,4,1,0,100,0,0",
    ]);
    let colours = v(&["Combo1 : 1,2,3", "Combo2 : 4,5,6", "SliderBorder : 9,9,9"]);
    let objects = v(&[
        "10,20,0,5,14,2:3:0:0:",
        "64,64,500,1,2,0:0:0:0:file.wav",
        "100,100,1000,2,0,B|200:100|200:200,1,150",
        "100,100,2500,6,2,P|150:50|200:100,3,200.25,2|4|8|0,1:2|0:0|3:3|2:1,1:1:0:0:",
        "100,100,5200,2,0,B|150:150|150:150|200:100|L|250:100,1,220",
        "50,50,6000,2,8,C|60:70|80:30|120:90,2,90",
        "256,192,8000,12,4,9000,1:0:0:0:",
        "64,192,9500,128,2,9900:1:2:3:40:",
        "300,300,10000,1,8,0:2:0:0:",
    ]);
    FileSpec {
        version,
        sections: vec![
            ("General", general),
            ("Editor", editor),
            ("Metadata", metadata),
            ("Difficulty", difficulty),
            ("Events", events),
            ("TimingPoints", timing),
            ("Colours", colours),
            ("HitObjects", objects),
        ],
    }
}

/// Replacement / insertion records per section (valid, boundary and hostile
/// but mostly accepted values).  Records of TimingPoints / HitObjects carry no
/// time: `{t}` is substituted by the generator to keep files chronological.
pub fn record_alphabet(section: &str) -> Vec<String> {
    let a: &[&str] = match section {
        "General" => &[
            "AudioFilename: dir\\a b.mp3",
            "AudioFilename: a\\\\b.mp3",
            "AudioFilename:",
            "AudioLeadIn: -5",
            "AudioLeadIn: 2147483647",
            "PreviewTime: -1",
            "Countdown: 0",
            "Countdown: Double speed",
            "SampleSet: Drum",
            "SampleSet: 0",
            "SampleVolume: 40",
            "StackLeniency: 1e-3",
            "StackLeniency: inf",
            "LetterboxInBreaks: 0",
            "SpecialStyle: 0",
            "WidescreenStoryboard: 0",
            "EpilepsyWarning: 0",
            "SamplesMatchPlaybackRate: 0",
            "CountdownOffset: -2",
            "CountdownOffset: 0",
            "Mode: 7",
            "Unknown: 1",
        ],
        "Editor" => &[
            "Bookmarks: 7",
            "Bookmarks:",
            "Bookmarks: 2147483647,-2147483647",
            "DistanceSpacing: 0.1",
            "DistanceSpacing: 2147483647",
            "BeatDivisor: -3",
            "GridSize: 0",
            "TimelineZoom: 2.5000001",
            "TimelineZoom: 1e-320",
        ],
        "Metadata" => &[
            "Title:",
            "Title:t",
            "TitleUnicode:[HitObjects]",
            "Artist:osu file format v3",
            "Creator:\"q\"",
            "Version:a:b:c",
            "Source:https://example.org/x",
            "Tags:",
            "BeatmapID:-5",
            "BeatmapID:0",
            "BeatmapID:2147483647",
            "BeatmapSetID:-1",
            "BeatmapSetID:0",
        ],
        "Difficulty" => &[
            "HPDrainRate:0",
            "CircleSize:2147483648",
            "OverallDifficulty:-3.5",
            "ApproachRate:5",
            "ApproachRate:1e-40",
            "SliderMultiplier:0.39",
            "SliderMultiplier:3.61",
            "SliderMultiplier:0.4",
            "SliderTickRate:0.49",
            "SliderTickRate:8.01",
            "SliderTickRate:1.5",
        ],
        "Events" => &[
            "0,0,\"dir\\\\x y.png\",0,0",
            "0,0,\"a\\\\\\\\b.png\",0,0",
            "Video,0,\"v.mp4\"",
            "1,0,\"img.png\"",
            "Sprite,Background,Centre,\"sp.png\",320,240",
            "2,100,900",
            "2,900,100",
            "2,5000.5,5900.25",
            "3,100,0,0,0",
            "Sample,100,0,\"s.wav\",50",
        ],
        "Colours" => &[
            "Combo3 : 255,255,255,7",
            "Combo1 : 0,0,0",
            "SliderTrackOverride: 1,1,1",
            "SliderBorder : 8,8,8",
            "Other:1,2,3",
            // custom colours whose names look like headers or comments (an indented line is a record, not a header)
            " [HitObjects] : 4,5,6",
            "[NotASection] : 7,8,9",
        ],
        "TimingPoints" => &[
            "{t},500,4,1,0,100,1,0",
            "{t},-30,4,1,0,100,0,0",
            "{t},-200,4,3,2,30,0,1",
            "{t},NaN,4,1,0,100,0,0",
            "{t},300,7,3,0,80,1,8",
            "{t},-1000,4,2,3,5,0,0",
            "{t},-5,4,1,0,100,0,1",
            "{t},6,4,0,0,101,1,0",
            "{t},60001,4,1,0,-1,1,0",
            "{t},-100",
            "{t},400",
            "{t},-77.7,4,1,1,70,0,0",
            "{t},-2500,4,1,0,100,0,0",
            "{t},500,4,1,0,100, 1, 8 ",
        ],
        "HitObjects" => &[
            "10,20,{t},1,0",
            "10,20,{t}, 1 , 2 ",
            // empty file-name slot followed by a comment; a sample file in a directory written with a backslash
            "256,192,{t},1,0,0:0:0:0: // x",
            "10,20,{t},1,2,0:0:0:70:drums\\kick.wav",
            "10,20,{t},5,14,2:3:1:50:",
            "64,64,{t},21,2,0:0:0:0:file.wav",
            "100,100,{t},2,0,B|200:100|200:200,1,150",
            "100,100,{t},2,0,L|100:100|300:100,1,0",
            "100,100,{t},2,0,B|150:150|150:150|200:100|L|250:100,1,220",
            "100,100,{t},2,0,B3|150:150|170:120|200:100,1",
            "100,100,{t},2,0,B|150:150|L|200:100,1,90",
            "100,100,{t},2,0,P|150:100|200:100,1,100",
            "100,100,{t},2,0,C|100:100|120:140|160:90,1,80",
            "1,1,{t},2,0,L|5:1,1,4",
            "100,100,{t},2,0,B,1,100",
            "256,192,{t},12,4,{t+900},1:0:0:0:",
            "64,192,{t},128,2,{t+600}:1:2:3:40:",
            "64,192,{t},128,0,{t+600}:0:0:0:0:hold.wav",
            "300,300,{t},1,8,0:2",
            "131072,-131072,{t},1,0",
            "0,0,{t},2,0,L|131072:131072,1",
            // end time exactly at the parse limit with a fractional start: start + (end - start) rounds above it
            "256,192,-1.3,12,0,2147483647",
            "64,192,-1.3,128,0,2147483647:0:0:0:0:",
            // natural length exactly at the parse limit, repeat field 0 and negative
            "-65536,0,{t},2,0,L|65536:0,1",
            "100,100,{t},2,2,L|200:100,0,100,2|4,1:2|3:1",
            "100,100,{t},2,0,L|200:100,-3,50",
        ],
        _ => &[],
    };
    a.iter().map(|s| (*s).to_string()).collect()
}

/// Substitutes `{t}` / `{t+N}` placeholders.
pub fn at_time(rec: &str, t: i64) -> String {
    let mut out = String::with_capacity(rec.len() + 8);
    let mut rest = rec;
    while let Some(i) = rest.find("{t") {
        out.push_str(&rest[..i]);
        let end = rest[i..].find('}').map(|e| i + e).unwrap_or(rest.len() - 1);
        let inner = &rest[i + 2..end];
        let add: i64 = inner.trim_start_matches('+').parse().unwrap_or(0);
        out.push_str(&(t + add).to_string());
        rest = &rest[end + 1..];
    }
    out.push_str(rest);
    out
}

/// Hostile numerics used for field deviations (C01/C07).
pub const HOSTILE: [&str; 29] = [
    "0", "1", "-1", "0.5", "7e0", " 7 ", "+7", "", "-", "NaN", "nan", "inf", "-inf", "1e999", "1e-320", "2147483647", "2147483648",
    "-2147483648", "131072", "131073", "-131073", "9000", "9001", "0x10", "\u{661}", "\u{FFFD}", "+0", "-0", " 0",
];

/// Field-by-field equality of slider control points (coordinates as plain f32 values, spline kind, degree): independent of the
/// library's own `PartialEq` impls, which a change under test may have weakened.
pub fn same_control_points(a: &[rosu_map::section::hit_objects::PathControlPoint], b: &[rosu_map::section::hit_objects::PathControlPoint]) -> bool {
    a.len() == b.len()
        && a.iter().zip(b).all(|(p, q)| {
            p.pos.x == q.pos.x
                && p.pos.y == q.pos.y
                && match (p.path_type, q.path_type) {
                    (None, None) => true,
                    (Some(s), Some(t)) => s.kind as i32 == t.kind as i32 && s.degree.map(|d| d.get()) == t.degree.map(|d| d.get()),
                    _ => false,
                }
        })
}

/// Field-by-field equality of control points, independent of the library's `PartialEq` impls (f64 fields compared as
/// plain values, so -0.0 equals 0.0 as before).
pub trait FieldEq {
    fn feq(&self, o: &Self) -> bool;
}
use rosu_map::section::timing_points::{DifficultyPoint, EffectPoint, SamplePoint, TimingPoint};
impl FieldEq for TimingPoint {
    fn feq(&self, o: &Self) -> bool {
        self.time == o.time
            && self.beat_len == o.beat_len
            && self.omit_first_bar_line == o.omit_first_bar_line
            && self.time_signature.numerator.get() == o.time_signature.numerator.get()
    }
}
impl FieldEq for DifficultyPoint {
    fn feq(&self, o: &Self) -> bool {
        self.time == o.time && self.slider_velocity == o.slider_velocity && self.generate_ticks == o.generate_ticks
    }
}
impl FieldEq for EffectPoint {
    fn feq(&self, o: &Self) -> bool {
        self.time == o.time && self.kiai == o.kiai && self.scroll_speed == o.scroll_speed
    }
}
impl FieldEq for SamplePoint {
    fn feq(&self, o: &Self) -> bool {
        self.time == o.time
            && self.sample_bank as i32 == o.sample_bank as i32
            && self.sample_volume == o.sample_volume
            && self.custom_sample_bank == o.custom_sample_bank
    }
}
/// lists differ by the library's `PartialEq` or field by field
pub fn lists_differ<T: FieldEq + PartialEq>(a: &[T], b: &[T]) -> bool {
    a != b || a.len() != b.len() || a.iter().zip(b).any(|(x, y)| !x.feq(y))
}
pub fn opts_differ<T: FieldEq + PartialEq>(a: Option<&T>, b: Option<&T>) -> bool {
    a != b
        || match (a, b) {
            (None, None) => false,
            (Some(x), Some(y)) => !x.feq(y),
            _ => true,
        }
}

use rosu_map::section::hit_objects::hit_samples::{HitSampleInfo, HitSampleInfoName};
/// Field-by-field equality of sample lists (independent of the library's `PartialEq` impls).
pub fn same_samples(a: &[HitSampleInfo], b: &[HitSampleInfo]) -> bool {
    a.len() == b.len()
        && a.iter().zip(b).all(|(x, y)| {
            (match (&x.name, &y.name) {
                (HitSampleInfoName::Default(p), HitSampleInfoName::Default(q)) => *p as i32 == *q as i32,
                (HitSampleInfoName::File(p), HitSampleInfoName::File(q)) => p.as_bytes() == q.as_bytes(),
                _ => false,
            }) && x.bank as i32 == y.bank as i32
                && x.suffix.map(|s| s.get()) == y.suffix.map(|s| s.get())
                && x.volume == y.volume
                && x.custom_sample_bank == y.custom_sample_bank
                && x.bank_specified == y.bank_specified
                && x.is_layered == y.is_layered
        })
}
pub fn same_node_samples(a: &[Vec<HitSampleInfo>], b: &[Vec<HitSampleInfo>]) -> bool {
    a.len() == b.len() && a.iter().zip(b).all(|(x, y)| same_samples(x, y))
}
